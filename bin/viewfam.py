"""Per-container function family: spec/Views.tla (typed views C14, Sort/Reverse C17, aggregates C18)."""
import json, os
from vlib import *


def tok(k, v):
    return '<<"%s", %d>>' % (k, v)


def run_views(prop, tier, seed, scratch, cfgs, rule):
    vh = build_harness(scratch)
    rule += (" Lists beyond these bounds (sizes around powers of two up to 1025, thorough 4103; sorted-but-one shapes; values around 2^53, MinInt/MaxInt) are "
             "run through the real methods, abstracted back to tokens and validated by TLC against the same operators (ViewsTrace.tla).")
    cov = dict(states=0, transitions=0, traces_validated_against_impl=0, evaluations=0, distinct_nontrivial=0, configs=[], samples=[],
               exhaustive=True, spec_drift=[], rule=rule, checker_cmd="tlc MC.tla (spec/Views.tla) ; vh views")
    violations = []
    for c in cfgs:
        name = "%s-%s" % (prop, c["name"])
        mod = "---- MODULE MC ----\nEXTENDS Views\nmcTokens == {%s}\n====\n" % ", ".join(tok(*t) for t in c["tokens"])
        cfg = "CONSTANTS\n Tokens <- mcTokens\n MaxLen = %d\n NKeys = %d\n Emit = TRUE\nSPECIFICATION Spec\nINVARIANTS %s\nCHECK_DEADLOCK FALSE\n" % (
            c["maxlen"], c.get("nkeys", 0), " ".join(c.get("invariants", ["PartitionLaw", "SortLaw", "FoldLaw"])))
        res = run_tlc(scratch, name, mod, cfg, ["Views.tla"], c.get("tlc_timeout", 900))
        if not res["ok"]:
            raise Inconclusive("TLC did not finish cleanly on %s (rc=%s):\n%s" % (name, res["rc"], res["tail"][-3000:]))
        log("[tlc] %s: %d states, %d transitions, %.1fs" % (name, res["states"], res["transitions"], res["wall_s"]))
        cov["states"] += res["states"]
        cov["transitions"] += res["transitions"]
        out = scratch.path("views-%s.json" % name)
        rc, so, se, wall = run_vh(vh, ["views", "-in", res["out_path"], "-prop", prop, "-family", c["family"], "-seed", str(seed),
                                       "-out", out, "-replaydir", scratch.sub("replays")], 3600)
        s = json.load(open(out))
        log("[views] %s family=%s: %d TLC records, %d evaluations, %.1fs" % (name, c["family"], s["tlc_records"], s["evaluations"], wall))
        cov["traces_validated_against_impl"] += s["tlc_records"]
        cov["evaluations"] += s["evaluations"]
        cov["distinct_nontrivial"] += s["distinct"]
        cov["configs"].append(dict(name=name, tokens=["%s:%d" % t for t in c["tokens"]], maxlen=c["maxlen"], nkeys=c.get("nkeys", 0),
                                   family=c["family"], tlc_states=res["states"], tlc_transitions=res["transitions"], tlc_records=s["tlc_records"],
                                   evaluations=s["evaluations"]))
        cov["samples"] += (s.get("samples") or [])[:2]
        for v in (s.get("violations") or []):
            v["config"] = name
            violations.append(v)
        try:
            os.remove(res["out_path"])
        except OSError:
            pass
        if violations:
            break
    if not violations and prop in ("C14", "C17", "C18"):
        run_view_trace(prop, tier, seed, scratch, vh, cov, violations)
    return cov, violations


def run_view_trace(prop, tier, seed, scratch, vh, cov, violations):
    """Large lists (beyond TLC's exhaustive bounds) through the real methods; TLC evaluates Views.tla on the logged lists (ViewsTrace.tla)."""
    fam = {"C14": "views", "C17": "sort", "C18": "agg"}[prop]
    trace = scratch.path("viewtrace.ndjson")
    args = ["viewtrace", "-trace", trace, "-seed", str(seed), "-family", fam] + ([] if tier == "quick" else ["-big"])
    rc, so, se, wall = run_vh(vh, args, 900)
    info = json.loads(so.strip().split("\n")[-1])
    mod = "---- MODULE MC ----\nEXTENDS ViewsTrace\n====\n"
    cfg = ('CONSTANTS\n Tokens = {}\n MaxLen = 0\n NKeys = 0\n Emit = FALSE\n TraceFile = "%s"\nSPECIFICATION TraceSpec\nCONSTRAINT Mark\n'
           'POSTCONDITION TraceAccepted\nCHECK_DEADLOCK FALSE\n' % trace)
    res = run_tlc(scratch, prop + "-viewtrace", mod, cfg, ["Views.tla", "ViewsTrace.tla"], 1800, workers=1, heap="8g")
    cov["states"] += res.get("states", 0)
    cov["transitions"] += res.get("transitions", 0)
    cov["large_lists"] = dict(events=info["events"], max_size=info["max_size"], accepted=bool(res["ok"]), tlc_wall_s=round(res["wall_s"], 1))
    if res["ok"]:
        cov["traces_validated_against_impl"] += info["events"]
        cov["evaluations"] += info["events"]
        log("[viewtrace] %s: %d recorded lists (up to %d elements) accepted by ViewsTrace.tla in %.1fs" % (prop, info["events"], info["max_size"], res["wall_s"]))
        return
    if "TraceAccepted" not in res["tail"]:
        raise Inconclusive("TLC failed on the recorded view trace for a reason other than rejecting it:\n" + res["tail"][:3000])
    first = res.get("states", 0)
    lines = open(trace).read().split("\n")
    bad = json.loads(lines[first - 1]) if 0 < first <= len(lines) else {}
    shown = dict(bad)
    if len(shown.get("list", [])) > 40:
        shown = {k: (v if k in ("note", "agg", "all", "allNumeric", "sortDomain") else "<%d entries>" % len(v) if isinstance(v, list) else "...") for k, v in bad.items()}
        shown["size"] = len(bad.get("list", []))
    os.makedirs(REPLAYS, exist_ok=True)
    keep = os.path.join(REPLAYS, "%s-viewtrace-%d.json" % (prop, seed))
    json.dump(bad, open(keep, "w"))
    violations.append(dict(property=prop, check="viewtrace", sig="viewtrace: %s" % (bad.get("note") or "results differ from Views.tla"),
                           message="recorded results of the view/sort/aggregate methods on a list of %d elements are not what Views.tla computes (event %d, harness note: %s); record kept in %s; summary: %s"
                                   % (len(bad.get("list", [])), first, bad.get("note"), keep, json.dumps(shown)[:600])))
    log("[viewtrace] %s: REJECTED at event %d" % (prop, first))


MIXED = [("nil", 0), ("bool", 1), ("int", 1), ("int", 2), ("float", 2), ("str", 1), ("O", 1), ("O", 2), ("L", 1)]


def run_c14(prop, tier, seed, scratch):
    q = tier == "quick"
    cfgs = [dict(name="lists", family="views", tokens=MIXED, maxlen=4 if q else 5),
            dict(name="objects", family="objviews", tokens=MIXED, maxlen=0, nkeys=3 if q else 4, invariants=["PartitionLaw"])]
    if not q:
        cfgs.append(dict(name="lists-long", family="views", tokens=[("nil", 0), ("int", 1), ("float", 2), ("str", 1), ("O", 1), ("L", 1)], maxlen=6))
    return run_views(prop, tier, seed, scratch, cfgs,
                     "TLC enumerates every list up to the length bound over the element alphabet (all seven kinds, duplicates, two objects) and every object over "
                     "the key tokens, and computes per kind the selected (index, element) sequence, AllX and AllNumeric; the harness builds each container four ways (plus extreme-valued, derived-element and zero-valued concretisations: \"\", 0, 0.0, false, empty containers) "
                     "and runs every typed/untyped ForEach, Map, Filter, Reduce, slice and All method with free callbacks (call logs, injective tags, order-sensitive "
                     "folds, call-number predicates), also after an All*;Insert / Replace;Delete history. distinct_nontrivial = distinct containers.")


def run_c17(prop, tier, seed, scratch):
    q = tier == "quick"
    base = [("int", -4), ("int", 0), ("int", 4), ("float", -2), ("float", -1), ("float", 0), ("float", 3), ("str", 1), ("str", 2), ("str", 3),
            ("O", 1), ("O", 2), ("nil", 0)]
    cfgs = [dict(name="mixed", family="sort", tokens=base, maxlen=4 if q else 5)]
    homo = [("ints", [("int", -4), ("int", 0), ("int", 4)]), ("floats", [("float", -2), ("float", -1), ("float", 0), ("float", 3)]),
            ("strs", [("str", 1), ("str", 2), ("str", 3)])]
    for n, ts in homo:
        cfgs.append(dict(name=n, family="sort", tokens=ts, maxlen=6 if q else 8))
    return run_views(prop, tier, seed, scratch, cfgs,
                     "TLC enumerates every list up to the length bound (homogeneous int/float/string lists with duplicates to a larger bound, mixed lists for Reverse "
                     "and the panic branch) with the reversed list, the Sort domain flag and the sorted permutation (SortLaw: sorted, same bag, idempotent); the harness "
                     "builds each list four ways (fresh, SubList of another list, Concat, NewListOf+Replace, so that element storage is shared with other lists), under "
                     "three concretisations (small values, MinInt/MaxInt and MaxFloat64, +0.0/-0.0 and equal-but-distinct containers), checks Reverse, Reverse twice, Sort, "
                     "Sort twice, identity of the returned list and that SubList/Concat results taken before stay unchanged. distinct_nontrivial = distinct lists.")


def run_c18(prop, tier, seed, scratch):
    q = tier == "quick"
    ints = [("int", -2), ("int", -1), ("int", 0), ("int", 1), ("int", 3)]
    flts = [("float", -6), ("float", -1), ("float", 0), ("float", 2), ("float", 5)]
    cfgs = [dict(name="numeric", family="agg", tokens=ints + flts, maxlen=4 if q else 5),
            dict(name="interleaved", family="agg", tokens=ints + [("float", 2), ("nil", 0), ("str", 1), ("bool", 1), ("L", 1)], maxlen=4 if q else 5)]
    return run_views(prop, tier, seed, scratch, cfgs,
                     "TLC enumerates every numeric list up to the length bound over 5 ints and 5 dyadic floats (negative, zero, positive; all-negative and single-element "
                     "lists included) and every list with non-numeric elements interleaved, with the exact rational Sum/Prod/Min/Max and IntSum/IntProd/IntMin/IntMax "
                     "(FoldLaw); the harness concretises with the identity, with power-of-two scalings 2^3, 2^40, 2^61 (sums leave the int64 range, products wrap; "
                     "every operand and partial result stays exactly representable so equality is exact) and with monotone extreme values. "
                     "distinct_nontrivial = distinct lists.")


ENTRY_POINTS = ["NewList", "NewListOf", "NewListFrom", "Add", "Insert", "Replace", "SetTF(list)", "NewObject", "NewObjectFrom", "Set", "SetTF(object)",
                "list.Map", "list.MapInts", "list.MapAsync", "object.Map", "object.MapStrings", "object.MapAsync"]
CONTEXTS = ["direct", "in []any", "in map[string]any", "depth 2"]


def run_c12(prop, tier, seed, scratch):
    q = tier == "quick"
    vh = build_harness(scratch)
    cov = dict(states=0, transitions=0, traces_validated_against_impl=0, evaluations=0, distinct_nontrivial=0, configs=[], samples=[], exhaustive=True, spec_drift=[],
               rule="TLC enumerates every (entry point, native Go class, nesting context) triple of spec/Convert.tla with the normal form the class must get "
                    "(NormalFormLaw: exactly one normal form per class, exactly the matching typed getter); the harness runs the members of each class through the "
                    "real entry point: all 256 values of int8/uint8, all (quick: every 7th) values of int16/uint16, boundaries and random values of the 32/64-bit widths "
                    "(unsigned up to MaxInt), float32 incl. subnormals and random bit patterns, every map/slice flavour (with nil interface elements, with later "
                    "mutation of the source), 19 unsupported classes. distinct_nontrivial = distinct triples.",
               checker_cmd="tlc MC.tla (spec/Convert.tla) ; vh convert")
    violations = []
    name = prop + "-convert"
    sset = lambda xs: "{" + ", ".join('"%s"' % x for x in xs) + "}"
    mod = "---- MODULE MC ----\nEXTENDS Convert\n====\n"
    cfg = "CONSTANTS\n EntryPoints = %s\n Contexts = %s\n Emit = TRUE\nSPECIFICATION Spec\nINVARIANTS NormalFormLaw\nCHECK_DEADLOCK FALSE\n" % (sset(ENTRY_POINTS), sset(CONTEXTS))
    res = run_tlc(scratch, name, mod, cfg, ["Convert.tla"], 600)
    if not res["ok"]:
        raise Inconclusive("TLC did not finish cleanly on %s (rc=%s):\n%s" % (name, res["rc"], res["tail"][-3000:]))
    log("[tlc] %s: %d states, %d transitions, %.1fs" % (name, res["states"], res["transitions"], res["wall_s"]))
    cov["states"], cov["transitions"] = res["states"], res["transitions"]
    out = scratch.path("convert.json")
    rc, so, se, wall = run_vh(vh, ["convert", "-in", res["out_path"], "-prop", prop, "-seed", str(seed), "-out", out, "-replaydir", scratch.sub("replays")]
                              + ([] if q else ["-full"]), 3600)
    s = json.load(open(out))
    log("[convert] %s: %d TLC records, %d evaluations, %.1fs" % (name, s["tlc_records"], s["evaluations"], wall))
    cov["traces_validated_against_impl"] = s["tlc_records"]
    cov["evaluations"] = s["evaluations"]
    cov["distinct_nontrivial"] = s["distinct"]
    cov["configs"].append(dict(name=name, entry_points=ENTRY_POINTS, contexts=CONTEXTS, tlc_states=res["states"], tlc_records=s["tlc_records"], full_width=not q))
    cov["samples"] = (s.get("samples") or [])[:4]
    violations = s.get("violations") or []
    return cov, violations
