import json, os, re, glob
S='/verif/seeded'
conf={}
for f,letters,rx in (('/tmp/confirm3.log','FGH',r'/tmp/mut3/(C\d+)/([ABC])'),('/tmp/confirm3b.log','FGH',r'/tmp/mut3/(C\d+)/([ABC])'),('/tmp/confirm4.log','IJ',r'/tmp/mut4/(C\d+)/([AB])')):
    for l in open(f):
        l=l.strip()
        if not l: continue
        d=json.loads(l)
        m=re.match(rx,d['dir'])
        key=m.group(1)+'-'+letters['ABC'.index(m.group(2))]
        if key=='C13-J': key='C15-K'
        conf[key]=d
n_new=n_upd=0
for d in sorted(os.listdir(S)):
    if not re.match(r'^C\d+-[A-H]$',d): continue
    prop=d.split('-')[0]
    log='/tmp/sweep9/%s.log'%d
    txt=open(log,errors='replace').read() if os.path.exists(log) else ''
    rc=re.search(r'== %s rc=(\d+)'%prop,txt)
    rc=int(rc.group(1)) if rc else None
    first=''
    lines=txt.split('\n')
    for i,l in enumerate(lines):
        if l.startswith('VIOLATION property='):
            first=(lines[i+1].strip() if i+1<len(lines) else '')[:400]
            break
    det=dict(by='bin/check %s --tier quick'%prop, exit_code=rc, first_message=first,
             how='bin/seedtest seeded/%s/patch.diff %s (scratch worktree of /repo HEAD with the patch applied, VERIF_REPO; /repo untouched)'%(d,prop))
    mp=os.path.join(S,d,'meta.json')
    if os.path.exists(mp):
        m=json.load(open(mp)); m['detected']=det; n_upd+=1
    else:
        notes=open(os.path.join(S,d,'notes.md')).read()
        title=notes.split('\n')[0]
        change=re.sub(r'^#\s*C\d+\s*/\s*mutant\s*\w+\s*[—-]\s*','',title).strip()
        sec=re.search(r'##[^\n]*(needed|manifest)[^\n]*\n(.*?)(\n## |\Z)',notes,re.S|re.I)
        body=sec.group(2) if sec else '\n'.join(notes.split('\n')[1:])
        need=' '.join(body.split())[:600]
        c=conf.get(d)
        assert c and c['applies'] and c['builds'] and c['existing_tests_pass'] and c['demo_fails_with_change'] and c['demo_passes_without'], (d,c)
        m=dict(id=d, property=prop,
               origin=('written by an independent sub-agent (%s round) that was given only the property text, one-line descriptions of the %s earlier changes for that property, and a scratch worktree of /repo (nothing from /verif)' % (('fourth','eight') if d[-1] in 'IJK' else ('third','five'))) + (' — written for C13; it only shows when two read-only conversions run concurrently, which is C15\'s domain, so it is filed and checked under C15' if d=='C15-K' else ''),
               change=change, needs_to_manifest=need,
               confirmed=dict(patch_applies=True, builds_with_and_without_tag=True, existing_tests_pass_with_change=True, demo_fails_with_change=True, demo_passes_without_change=True,
                              how='bin/seedconfirm (scratch worktree of /repo HEAD under /tmp, removed afterwards): go build/vet (also -tags verif), go test -count=1 ./..., demo_test.go run with `go test -count=1 %s-run TestDemo` with and without the patch'%((c['race']+' ') if c['race'] else '')),
               detected=det)
        n_new+=1
    json.dump(m,open(mp,'w'),indent=1)
    if rc!=1: print('NOT DETECTED',d,rc)
print(n_new,'new',n_upd,'updated')
