"""Shared helpers of the check driver: scratch dirs, TLC runs, harness build, evidence files."""
import json, os, re, shutil, subprocess, sys, tempfile, time, hashlib

VERIF = os.path.dirname(os.path.dirname(os.path.abspath(__file__)))
SPEC = os.path.join(VERIF, "spec")
HARNESS = os.path.join(VERIF, "harness")
# VERIF_EVIDENCE_DIR / VERIF_REPO are used only by the seeded-change sweeps (bin/seedtest), which run the checks against a
# scratch worktree of /repo without touching /repo or the committed evidence; the registered commands never set them.
EVIDENCE = os.environ.get("VERIF_EVIDENCE_DIR") or os.path.join(VERIF, "evidence")
REPLAYS = os.path.join(EVIDENCE, "replays")
KNOWN = os.path.join(VERIF, "KNOWN_FINDINGS.json")

GOENV = dict(os.environ, GOFLAGS="-mod=mod", GOPROXY="off", GOSUMDB="off", GOTOOLCHAIN="local", CGO_ENABLED=os.environ.get("CGO_ENABLED", "1"))


class Inconclusive(Exception):
    """Tool failure, timeout, budget exceeded: exit 2, never a violation."""


def log(*a):
    print(*a, file=sys.stderr, flush=True)


class Scratch:
    def __init__(self, tag):
        base = os.environ.get("VERIF_SCRATCH") or tempfile.gettempdir()
        self.dir = tempfile.mkdtemp(prefix="verif-%s-" % tag, dir=base)

    def path(self, *p):
        return os.path.join(self.dir, *p)

    def sub(self, name):
        d = self.path(name)
        os.makedirs(d, exist_ok=True)
        return d

    def cleanup(self):
        shutil.rmtree(self.dir, ignore_errors=True)


_built = {}


def build_harness(scratch, race=False):
    """Build the Go harness against /repo's current working tree with the hooks enabled."""
    key = (scratch.dir, race)
    if key in _built:
        return _built[key]
    out = scratch.path("vh-race" if race else "vh")
    cmd = ["go", "build", "-tags", "verif"]
    alt = os.environ.get("VERIF_REPO")
    if alt:
        modfile = scratch.path("alt-go.mod")
        with open(modfile, "w") as f:
            f.write(open(os.path.join(HARNESS, "go.mod")).read().replace("=> /repo", "=> " + alt))
        open(scratch.path("alt-go.sum"), "w").close()
        cmd += ["-modfile", modfile]
    if race:
        cmd.append("-race")
    cmd += ["-o", out, "./cmd/vh"]
    t0 = time.time()
    p = subprocess.run(cmd, cwd=HARNESS, env=GOENV, capture_output=True, text=True)
    if p.returncode != 0:
        # the library under test does not build with the harness: no verdict
        raise Inconclusive("harness build failed:\n" + p.stdout + p.stderr)
    log("[build] harness%s built in %.1fs" % (" (race)" if race else "", time.time() - t0))
    _built[key] = out
    return out


TLC_STATS = re.compile(r"(\d[\d,]*) states generated, (\d[\d,]*) distinct states found, (\d[\d,]*) states left on queue")


def run_tlc(scratch, name, module_text, cfg_text, specs, timeout_s, workers=16, out_name=None, extra_args=(), heap=None):
    """Run TLC on a generated MC module. Returns dict(states, distinct, out_path, wall_s, ok, violation_text)."""
    d = scratch.sub("tlc-" + name)
    for s in specs:
        shutil.copy(os.path.join(SPEC, s), d)
    with open(os.path.join(d, "MC.tla"), "w") as f:
        f.write(module_text)
    with open(os.path.join(d, "MC.cfg"), "w") as f:
        f.write(cfg_text)
    out_path = os.path.join(d, out_name or "tlc.out")
    cmd = ["tlc", "-workers", str(workers), "-metadir", os.path.join(d, "meta"), "-nowarning"] + list(extra_args) + ["MC.tla"]
    env = dict(os.environ)
    jtmp = os.path.join(d, "jtmp")  # TLC leaves an empty tlc-<n> directory in java.io.tmpdir on every start
    os.makedirs(jtmp, exist_ok=True)
    env["JAVA_TOOL_OPTIONS"] = (env.get("JAVA_TOOL_OPTIONS", "") + " -Xss64m -Djava.io.tmpdir=" + jtmp).strip()
    if heap:
        env["JAVA_TOOL_OPTIONS"] = (env.get("JAVA_TOOL_OPTIONS", "") + " -Xmx%s" % heap).strip()
    t0 = time.time()
    with open(out_path, "w") as fo:
        try:
            p = subprocess.run(["timeout", str(int(timeout_s))] + cmd, cwd=d, stdout=fo, stderr=subprocess.STDOUT, env=env)
        except Exception as e:
            raise Inconclusive("tlc failed to start: %s" % e)
    wall = time.time() - t0
    shutil.rmtree(os.path.join(d, "meta"), ignore_errors=True)
    shutil.rmtree(os.path.join(d, "states"), ignore_errors=True)
    shutil.rmtree(jtmp, ignore_errors=True)
    tail = tail_nonjson(out_path)
    m = None
    for m in TLC_STATS.finditer(tail):
        pass
    res = dict(out_path=out_path, wall_s=wall, rc=p.returncode, tail=tail, dir=d)
    if m:
        res["transitions"] = int(m.group(1).replace(",", ""))
        res["states"] = int(m.group(2).replace(",", ""))
        res["queue"] = int(m.group(3).replace(",", ""))
    if p.returncode == 124:
        raise Inconclusive("tlc timed out after %ds on %s" % (timeout_s, name))
    res["ok"] = (p.returncode == 0 and "No error has been found" in tail)
    return res


def tail_nonjson(path, limit=200000):
    """Collect TLC's own messages (everything that is not an emitted JSON line)."""
    out = []
    size = 0
    with open(path, "r", errors="replace") as f:
        for line in f:
            if line.startswith('"{') or line.startswith('"['):
                continue
            out.append(line)
            size += len(line)
            if size > limit:
                out = out[-2000:]
                size = sum(len(x) for x in out)
    return "".join(out)


def load_known():
    if not os.path.exists(KNOWN):
        return []
    return json.load(open(KNOWN)).get("findings", [])


def classify(prop, violations):
    """Split violations into known (open findings) and new ones."""
    known = [k for k in load_known() if k.get("property") == prop and k.get("status") == "open"]
    new, old = [], []
    for v in violations:
        hit = None
        for k in known:
            if re.search(k["match"], v.get("sig", "") + " " + v.get("message", "")):
                hit = k
                break
        if hit:
            old.append((hit, v))
        else:
            new.append(v)
    return new, old


def write_evidence(prop, tier, seed, level, coverage, wall_s, violations, assumptions):
    os.makedirs(EVIDENCE, exist_ok=True)
    ev = dict(property_id=prop, tier=tier, seed=seed, level=level, coverage=coverage, assumptions=assumptions,
              wall_s=round(wall_s, 2), violations=violations)
    tmp = os.path.join(EVIDENCE, ".%s.json.tmp" % prop)
    with open(tmp, "w") as f:
        json.dump(ev, f, indent=1, default=str)
    os.replace(tmp, os.path.join(EVIDENCE, "%s.json" % prop))


def save_replay(prop, v):
    os.makedirs(REPLAYS, exist_ok=True)
    h = hashlib.sha1((v.get("sig", "") + v.get("message", "")).encode()).hexdigest()[:10]
    p = os.path.join(REPLAYS, "%s-%s.json" % (prop, h))
    with open(p, "w") as f:
        json.dump(v, f, indent=1)
    return p


def run_vh(vh, args, timeout_s):
    t0 = time.time()
    try:
        p = subprocess.run([vh] + args, capture_output=True, text=True, timeout=timeout_s)
    except subprocess.TimeoutExpired:
        raise Inconclusive("harness timed out after %ds: %s" % (timeout_s, " ".join(args[:4])))
    if p.returncode not in (0, 1):
        raise Inconclusive("harness failed (rc=%d): %s\n%s" % (p.returncode, " ".join(args[:6]), (p.stdout + p.stderr)[-3000:]))
    return p.returncode, p.stdout, p.stderr, time.time() - t0
