"""Heap family: spec/Heap.tla + spec/HeapGraph.tla explored by TLC, every reachable state and
operation replayed on the real library by `vh replay` (C05 C06 C07 C08 C09 C10 C11 C13 C19)."""
import json, os, time
from vlib import *

V = lambda k, v: 'V("%s", %d)' % (k, v)


def tla_set(xs):
    return "{" + ", ".join(xs) + "}"


def tla_cell(c, nkeys):
    t, e = c
    if t == "L":
        return 'Cell("L", <<%s>>)' % ", ".join(V(*x) for x in e)
    # object literal: dict key -> value
    slots = []
    for k in range(1, nkeys + 1):
        slots.append(V(*e[k]) if k in e else "Absent")
    return 'Cell("O", <<%s>>)' % ", ".join(slots)


def json_cell(c, nkeys):
    t, e = c
    if t == "L":
        return [t, [[k, v] for (k, v) in e]]
    return [t, [[e[k][0], e[k][1]] if k in e else ["absent", 0] for k in range(1, nkeys + 1)]]


DEFAULTS = dict(argrefs=True, nkeys=1, maxrefs=2, maxlen=2, scalars=[("int", 1), ("str", 1)], arglits=[], lits=[("L", [])],
                slack=1, tfkeys=1, tfidx=1, tflen=1, tfread=0,
                invariants=["TypeOK", "AcyclicInv", "EqualsInv", "StepOK", "AlgebraInv", "ResolveInv"],
                conc=["plain"], derived=[0], obs="getters,equals,index", obsevery=1,
                depth=3, maxpaths=300000, walks=3000, walklen=30, tlc_timeout=600, budget="4m")


def gen_mc(c):
    nk = c["nkeys"]
    lits = ", ".join(tla_cell(x, nk) for x in c["lits"])
    mod = """---- MODULE MC ----
EXTENDS HeapGraph
mcLits == <<%s>>
mcOps == %s
mcScalars == %s
mcArgLits == %s
====
""" % (lits, tla_set('"%s"' % o for o in c["ops"]), tla_set(V(*s) for s in c["scalars"]),
       tla_set(V("lit", i) for i in c["arglits"]))
    cfg = """CONSTANTS
 NKeys = %d
 Lits <- mcLits
 MaxRefs = %d
 BuildRefs = %d
 MaxLen = %d
 OpsOn <- mcOps
 ArgScalars <- mcScalars
 ArgLits <- mcArgLits
 ArgRefs = %s
 IdxSlack = %d
 TFKeys = %d
 TFIdx = %d
 TFLen = %d
 TFReadLen = %d
 TFReadKeys = %d
 Emit = TRUE
INIT Init
NEXT Next
INVARIANTS %s
CHECK_DEADLOCK FALSE
""" % (nk, c["maxrefs"], c.get("buildrefs") or c["maxrefs"], c["maxlen"], "TRUE" if c["argrefs"] else "FALSE", c["slack"], c["tfkeys"], c["tfidx"], c["tflen"], c["tfread"], c.get("tfreadkeys") or nk, " ".join(c["invariants"]))
    return mod, cfg


def run_heap_family(prop, tier, seed, configs, scratch, assumptions, level_note):
    """Returns (coverage dict, violations list)."""
    vh = build_harness(scratch)
    cov = dict(states=0, transitions=0, traces_validated_against_impl=0, evaluations=0, distinct_nontrivial=0,
               configs=[], samples=[], exhaustive=True, spec_drift=[],
               rule="TLC enumerates every reachable abstract heap inside the constants of each config and, per heap, every "
                    "enabled operation with its allowed results; the replayer executes behaviours of that graph on the real "
                    "library (every operation instance of every state at least once, all behaviours up to the stated depth, "
                    "seeded random walks) and compares outcome and whole heap (with container identity) after every step. "
                    "distinct_nontrivial = distinct (state, operation instance) pairs executed on the real code.",
               checker_cmd="tlc MC.tla (spec/HeapGraph.tla) ; vh replay")
    violations = []
    for ci, c0 in enumerate(configs):
        c = dict(DEFAULTS)
        c.update(c0)
        name = "%s-%s-%d" % (prop, c.get("name", "cfg"), ci)
        mod, cfg = gen_mc(c)
        t0 = time.time()
        res = run_tlc(scratch, name, mod, cfg, ["Heap.tla", "HeapGraph.tla"], c["tlc_timeout"])
        if not res["ok"]:
            # the specification itself violates one of its invariants or TLC failed: a design finding,
            # not a verdict about the code (DESIGN 1.3)
            raise Inconclusive("TLC did not finish cleanly on %s (rc=%s):\n%s" % (name, res["rc"], res["tail"][-3000:]))
        log("[tlc] %s: %d states, %d transitions, %.1fs" % (name, res["states"], res["transitions"], res["wall_s"]))
        if os.environ.get("VERIF_MEASURE"):
            continue
        cov["states"] += res["states"]
        cov["transitions"] += res["transitions"]
        centry = dict(name=name, constants={k: c[k] for k in ("nkeys", "maxrefs", "maxlen", "slack", "tflen", "tfread")},
                      ops=sorted(c["ops"]), tlc_states=res["states"], tlc_transitions=res["transitions"],
                      invariants=c["invariants"], tlc_wall_s=round(res["wall_s"], 1), replays=[])
        lits_json = json.dumps([json_cell(x, c["nkeys"]) for x in c["lits"]])
        for cm in c["conc"]:
            for dv in c["derived"]:
                out = scratch.path("sum-%s-%s-%d.json" % (name, cm, dv))
                args = ["replay", "-graph", res["out_path"], "-prop", prop, "-conc", cm, "-seed", str(seed), "-derived", str(dv),
                        "-nkeys", str(c["nkeys"]), "-nstr", str(max([c["nkeys"]] + [v for (k, v) in c["scalars"] if k == "str"])), "-lits", lits_json, "-obs", c["obs"], "-obsevery", str(c["obsevery"]),
                        "-tflen", str(c["tfread"]), "-maxlen", str(c["maxlen"]), "-depth", str(c["depth"]),
                        "-maxpaths", str(c["maxpaths"]), "-walks", str(c["walks"]), "-walklen", str(c["walklen"]),
                        "-out", out, "-budget", c["budget"], "-replaydir", scratch.sub("replays")]
                rc, so, se, wall = run_vh(vh, args, 3600)
                s = json.load(open(out))
                if s.get("timed_out"):
                    cov["exhaustive"] = False
                log("[replay] %s conc=%s derived=%d: %d behaviours, %d steps, %d api calls, %d distinct state-ops, %.1fs%s"
                    % (name, cm, dv, s["behaviours"], s["steps"], s["api_calls"], s["distinct_state_ops"], wall,
                       " TIMED-OUT (partial)" if s.get("timed_out") else ""))
                cov["traces_validated_against_impl"] += s["behaviours"]
                cov["evaluations"] += s["api_calls"]
                cov["distinct_nontrivial"] += s["distinct_state_ops"]
                if not s.get("paths_complete", True):
                    cov["exhaustive"] = False
                centry["replays"].append({k: s[k] for k in ("conc", "derived", "behaviours", "steps", "api_calls", "distinct_state_ops",
                                                            "states_visited", "graph_op_instances", "cover_runs", "spare_capacity_detours", "paths_exhaustive",
                                                            "paths_depth", "paths_complete", "walks", "walk_len", "timed_out")})
                if len(cov["samples"]) < 4 and s.get("samples"):
                    cov["samples"].append(dict(config=name, behaviour=s["samples"][-1]))
                for v in (s.get("violations") or []):
                    v["config"] = name
                    violations.append(v)
        cov["configs"].append(centry)
        try:
            os.remove(res["out_path"])
        except OSError:
            pass
        if violations:
            break
    if not violations and prop in TRACE_PROPS and not os.environ.get("VERIF_MEASURE"):
        run_trace_validation(prop, tier, seed, scratch, cov, violations, TRACE_PROPS[prop])
    if not violations and prop == "C09" and not os.environ.get("VERIF_MEASURE"):
        run_slice_model(prop, tier, scratch, cov)
    if not violations and prop == "C13" and not os.environ.get("VERIF_MEASURE"):
        # wide native trees, one conversion after the other in one process (Go-side member sweep of the Native*/New*From composition)
        out = scratch.path("nativetrees.json")
        rc, so, se, wall = run_vh(vh, ["nativetrees", "-prop", prop, "-seed", str(seed), "-n", "4000" if tier == "quick" else "60000", "-out", out,
                                       "-replaydir", scratch.sub("replays")], 1200)
        s = json.load(open(out))
        cov["evaluations"] += s.get("evaluations", 0)
        cov["native_trees"] = dict(trees=s.get("native_trees"), distinct=s.get("distinct"), wall_s=round(wall, 1))
        log("[native] %s: %d wide native trees converted and exported in one process, %.1fs" % (prop, s.get("native_trees", 0), wall))
        for v in (s.get("violations") or []):
            v["config"] = "nativetrees"
            violations.append(v)
    return cov, violations


def run_trace_validation(prop, tier, seed, scratch, cov, violations, stages=(("std", 0),)):
    """R3: random programs on the real library (large containers) validated by TLC against Heap.tla (spec/HeapTrace.tla).
    Stage kinds: std = random programs incl. lists of several hundred elements; scen = scripted scenarios (Equals on lists of
    ~2050 elements, nesting chains of depth 140/260); bigobj = objects with up to 80 fields, bulk Set/Unset/Pluck."""
    vh = build_harness(scratch)
    q = tier == "quick"
    for kind, dv in stages:
        tag = "%s-d%d" % (kind, dv)
        trace = scratch.path("heap-trace-%s.ndjson" % tag)
        summ = scratch.path("heap-trace-%s.json" % tag)
        nkeys = 4
        if kind == "std":
            args = ["-programs", "60" if q else "400", "-steps", "80" if q else "150", "-bigprograms", "8" if q else "40", "-bigsteps", "30" if q else "60"]
        elif kind == "scen":
            args = ["-programs", "2", "-steps", "30", "-bigprograms", "0", "-scenarios"]
        else:
            nkeys = 80 if q else 260
            args = ["-programs", "6" if q else "60", "-steps", "60" if q else "120", "-bigprograms", "0", "-bigobj"]
        spine = None
        if kind == "std" and dv == 0 and prop in SLICE_PROPS:
            spine = scratch.path("spine-%s.ndjson" % tag)
            args = args + ["-spine", spine]
        rc, so, se, wall = run_vh(vh, ["drive", "-trace", trace, "-seed", str(seed), "-nkeys", str(nkeys), "-derived", str(dv), "-out", summ] + args, 1800)
        s = json.load(open(summ))
        mod = "---- MODULE MC ----\nEXTENDS HeapTrace\nmcLits == <<>>\n====\n"
        cfg = ('CONSTANTS\n NKeys = %d\n Lits <- mcLits\n TraceFile = "%s"\nSPECIFICATION TraceSpec\n%sCONSTRAINT Mark\n'
               'POSTCONDITION TraceAccepted\nCHECK_DEADLOCK FALSE\n' % (nkeys, trace, "" if kind == "scen" else "INVARIANT TraceInv\n"))
        res = run_tlc(scratch, "%s-trace-%s" % (prop, tag), mod, cfg, ["Heap.tla", "HeapTrace.tla"], 1800, workers=1, heap="8g")
        cov["states"] += res.get("states", 0)
        cov["transitions"] += res.get("transitions", 0)
        entry = dict(name="%s-trace-%s" % (prop, tag), kind=kind, derived=dv, programs=s["programs"], events=s["events"], max_container_sizes=s["max_container_sizes"][-5:],
                     alien_values=s["alien_values"], tlc_wall_s=round(res["wall_s"], 1), accepted=bool(res["ok"]))
        cov.setdefault("trace_validation", []).append(entry)
        internal = [x for x in ("StackOverflowError", "OutOfMemoryError", "Parsing or semantic analysis failed", "java.lang.") if x in res["tail"]]
        if not res["ok"] and (internal or "TraceAccepted" not in res["tail"]):
            raise Inconclusive("TLC failed on the recorded trace for a reason other than rejecting it (%s):\n%s" % (internal, res["tail"][:3000]))
        if res["ok"]:
            cov["traces_validated_against_impl"] += s["programs"]
            cov["evaluations"] += s["events"]
            log("[trace] %s %s: %d programs, %d events (largest containers %s) accepted by TLC in %.1fs"
                % (prop, tag, s["programs"], s["events"], s["max_container_sizes"][-3:], res["wall_s"]))
        else:
            # locate the first unexplained event: the high-water mark is the number of states TLC generated
            first = res.get("states", 0)
            lines = open(trace).read().split("\n")
            bad = lines[first - 1] if 0 < first <= len(lines) else ""
            start = first - 1
            while start > 0 and '"reset"' not in lines[start]:
                start -= 1
            os.makedirs(REPLAYS, exist_ok=True)
            keep = os.path.join(REPLAYS, "%s-trace-%s-%d.ndjson" % (prop, tag, seed))
            with open(keep, "w") as f:
                f.write("\n".join(lines[start:first]) + "\n")
            try:
                o = json.loads(bad).get("o")
                rv = json.loads(bad).get("ret")
            except Exception:
                o, rv = None, None
            log("[trace] rejected line: %s" % bad[:400])
            violations.append(dict(property=prop, check="trace", config="trace-%s" % tag, sig="trace: op=%s rejected by HeapTrace.tla" % (o[0] if o else "?"),
                                   message="event %d of the recorded execution is not a step Heap.tla allows (operation %s returned %s, stage %s, derived=%d); the program up to and "
                                           "including this event is in %s" % (first, json.dumps(o)[:300], json.dumps(rv), kind, dv, keep),
                                   steps_file=keep, nkeys=nkeys))
            log("[trace] %s %s: REJECTED at event %d" % (prop, tag, first))
        try:
            os.remove(trace)
        except OSError:
            pass
        if violations:
            return
        if spine:
            run_slice_trace(prop, tier, scratch, cov, spine)


SLICE_PROPS = ("C05", "C09")


def run_slice_trace(prop, tier, scratch, cov, spine):
    """Implementation-shaped stage: the slice headers (len, cap, backing array) of every built-in list, recorded through the
    VerifSpine hook after every call of the random programs, must follow spec/SliceTrace.tla (append in place or move to a
    fresh array, make+copy for derivations, no two lists on one array).  A rejection is spec drift, never a violation."""
    mod = "---- MODULE MC ----\nEXTENDS SliceTrace\n====\n"
    cfg = 'CONSTANTS\n TraceFile = "%s"\nSPECIFICATION TraceSpec\nINVARIANT TraceInv\nCONSTRAINT Mark\nPOSTCONDITION TraceAccepted\nCHECK_DEADLOCK FALSE\n' % spine
    nlines = sum(1 for _ in open(spine))
    try:
        res = run_tlc(scratch, "%s-slice-trace" % prop, mod, cfg, ["SliceHdr.tla", "SliceTrace.tla"], 1200, workers=1, heap="4g")
    except Inconclusive as e:
        cov["spec_drift"].append("SliceTrace.tla: TLC did not finish (%s); no verdict taken from it" % str(e)[:200])
        return
    entry = dict(name="%s-slice-trace" % prop, spec="SliceTrace.tla", events=nlines, tlc_wall_s=round(res["wall_s"], 1), accepted=bool(res["ok"]))
    cov.setdefault("trace_validation", []).append(entry)
    if res["ok"]:
        log("[slice] %s: %d recorded header events accepted by SliceTrace.tla in %.1fs" % (prop, nlines, res["wall_s"]))
    else:
        first = res.get("states", 0)
        lines = open(spine).read().split("\n")
        bad = lines[first - 1] if 0 < first <= len(lines) else ""
        why = "invariant Ownership/WellFormed" if "TraceInv" in res["tail"] else "no header rule allows it"
        cov["spec_drift"].append("SliceTrace.tla rejects recorded event %d (%s): %s" % (first, why, bad[:300]))
        log("[slice] %s: recorded headers REJECTED at event %d (%s) — spec drift, no verdict: %s" % (prop, first, why, bad[:200]))
    try:
        os.remove(spine)
    except OSError:
        pass


def run_slice_model(prop, tier, scratch, cov):
    """Design level: spec/SliceMem.tla (headers + array contents) refines the sequence semantics and keeps Frame/Ownership;
    the three seeded header bugs (defect D5 among them) must be found by TLC."""
    bounds = [(2, 3)] if tier == "quick" else [(2, 3), (3, 2), (2, 4)]
    mod = "---- MODULE MC ----\nEXTENDS SliceMem\n====\n"
    for bug in ("none", "concat-append", "sublist-reslice", "clear-reslice"):
        for (nl, mc) in (bounds if bug == "none" else [(2, 3)]):
            cfg = ('CONSTANTS\n MaxLists = %d\n MaxCap = %d\n Vals = {1, 2}\n Bug = "%s"\nSPECIFICATION Spec\nINVARIANTS TypeOK Refines%s\nPROPERTY Frame\nCHECK_DEADLOCK FALSE\n'
                   % (nl, mc, bug, " Ownership" if bug in ("none", "clear-reslice") else ""))  # negatives: let TLC reach the user-visible Frame violation
            try:
                res = run_tlc(scratch, "%s-slicemem-%s-%d-%d" % (prop, bug, nl, mc), mod, cfg, ["SliceHdr.tla", "SliceMem.tla"], 1500)
            except Inconclusive as e:
                cov["spec_drift"].append("SliceMem.tla (%s): %s" % (bug, str(e)[:200]))
                continue
            # clear-reslice alone is harmless (nobody else owns the array): it must pass; the other two must be caught
            expect_ok = bug in ("none", "clear-reslice")
            if not expect_ok and not res["ok"] and "Frame is violated" not in res["tail"]:
                cov["spec_drift"].append("SliceMem.tla with Bug=%s: TLC stopped for another reason than Frame: %s" % (bug, res["tail"][-300:].replace("\n", " ")))
            entry = dict(name="slicemem-%s-l%d-c%d" % (bug, nl, mc), tlc_states=res.get("states"), tlc_transitions=res.get("transitions"),
                         tlc_wall_s=round(res["wall_s"], 1), expected="holds" if expect_ok else "violated", as_expected=bool(res["ok"]) == expect_ok)
            cov.setdefault("design_models", []).append(entry)
            if expect_ok:
                cov["states"] += res.get("states", 0)
                cov["transitions"] += res.get("transitions", 0)
            if not entry["as_expected"]:
                cov["spec_drift"].append("SliceMem.tla with Bug=%s: expected %s, TLC says otherwise: %s" % (bug, entry["expected"], res["tail"][-300:].replace("\n", " ")))
            log("[slicemem] Bug=%s lists=%d cap=%d: %s states, %s (%s)" % (bug, nl, mc, res.get("states"), "no error" if res["ok"] else "violation found",
                                                                        "as expected" if entry["as_expected"] else "UNEXPECTED"))


TRACE_PROPS = {"C05": (("std", 0),), "C06": (("std", 0), ("bigobj", 0)), "C07": (("scen", 0),), "C08": (("std", 0), ("scen", 0), ("bigobj", 0)), "C09": (("std", 0), ("scen", 0)),
               "C10": (("std", 0), ("scen", 0)), "C11": (("std", 0), ("scen", 0)), "C13": (("scen", 0),), "C19": (("std", 1), ("std", 2), ("bigobj", 1))}

# ---------------------------------------------------------------------------------------------
# Config tables.  Sizes are fitted to measured state counts (see DESIGN.md section 5.0).
# ---------------------------------------------------------------------------------------------
LIST_MUT = ["Add", "Insert", "Replace", "Delete", "Pop", "Clear", "Reverse", "Sort"]
LIST_DER = ["SubList", "Concat", "Clone"]
OBJ_MUT = ["Set", "Unset", "ClearO"]
OBJ_DER = ["Keys", "Values", "Pluck", "Merge", "CloneO"]


def configs_for(prop, tier):
    q = tier == "quick"
    OBJLIT = ("O", {1: ("int", 7)})
    if prop == "C05":
        base = [
            dict(name="lists-r2-l3", maxrefs=2, maxlen=3, ops=["NewList", "NewList2", "NewListOf"] + LIST_MUT + LIST_DER + ["Delete2", "Add2"],
                 conc=["plain", "extreme", "long", "bounds"], depth=3, walks=6000, walklen=40),
            dict(name="nest-r3-l1", maxrefs=3, maxlen=1, nkeys=1, ops=["NewList", "NewListOf", "NewObject"] + LIST_MUT + LIST_DER,
                 arglits=[1], conc=["weird"], depth=3, walks=6000),
            # two values of one kind: Sort / Reverse histories change the order
            # (under the extreme table the two tokens are MinInt and MaxInt: comparators that subtract overflow)
            dict(name="lists-sort", maxrefs=2, maxlen=3, scalars=[("int", -4), ("int", 11)], argrefs=False, slack=0,
                 ops=["NewList2", "NewList3", "Sort", "Reverse", "Add", "Pop", "Replace", "SubList"], conc=["extreme"], depth=4, walks=3000, walklen=20),
        ]
        if q:
            return base
        return base + [
            dict(name="lists-r3-l2", maxrefs=3, maxlen=2, ops=["NewList", "NewList2", "NewListOf", "NewObject"] + LIST_MUT + LIST_DER + ["Delete2"],
                 conc=["plain"], depth=3, walks=200000, walklen=40, tlc_timeout=1200, budget="12m"),
            dict(name="lists-r2-l4", maxrefs=2, maxlen=4, scalars=[("int", 1)], ops=["NewList", "NewList2", "NewList3"] + LIST_MUT + LIST_DER + ["Add2"],
                 conc=["extreme"], depth=4, walks=200000, walklen=60, budget="8m"),
        ]
    if prop == "C06":
        base = [
            dict(name="objs-r2-k2", maxrefs=2, nkeys=2, maxlen=2, scalars=[("int", 1), ("nil", 0)],
                 ops=["NewObject", "NewObject2", "Set2", "Unset2"] + OBJ_MUT + OBJ_DER + ["Dict", "MapIdO"],
                 conc=["weird", "plain", "long", "bytes"], depth=3, walks=6000, walklen=40),
            dict(name="objs-r3-k1", maxrefs=3, nkeys=1, maxlen=1, scalars=[("str", 1)], lits=[("L", []), OBJLIT], arglits=[2],
                 ops=["NewObject", "NewList"] + OBJ_MUT + OBJ_DER, conc=["weird"], depth=3, walks=6000),
            dict(name="merge-r3-k2", maxrefs=3, nkeys=2, maxlen=2, scalars=[("int", 1), ("int", 2)], argrefs=False,
                 ops=["NewObject", "NewObject2", "Set", "Unset", "Merge", "Pluck", "Keys", "Values"], conc=["weird"], depth=3, walks=6000),
            # keys that read like tree-form paths of each other (".a" next to "a")
            dict(name="objs-dots", maxrefs=2, nkeys=3, maxlen=2, scalars=[("int", 1)], ops=["NewObject", "NewList", "Set", "Unset", "Pluck", "Keys"],
                 conc=["dots"], depth=3, walks=3000),
        ]
        if q:
            return base
        return base + [
            dict(name="objs-r3-k2", maxrefs=3, nkeys=2, maxlen=2, scalars=[("int", 1), ("nil", 0)],
                 ops=["NewObject", "NewObject2", "NewList", "Set2", "Unset2"] + OBJ_MUT + OBJ_DER + ["Dict"],
                 conc=["weird"], depth=3, walks=200000, walklen=40, tlc_timeout=1500, budget="12m"),
            dict(name="objs-r2-k3", maxrefs=2, nkeys=3, maxlen=3, scalars=[("int", 1)],
                 ops=["NewObject", "Set2", "Unset2"] + OBJ_MUT + OBJ_DER, conc=["weird", "plain"], depth=4, walks=100000, walklen=50, budget="8m"),
        ]
    if prop == "C07":
        # build-only alphabet: states are tuples of trees; "same number, other kind" always present
        eqs = [("int", 1), ("float", 4), ("nil", 0)]
        base = [
            dict(name="eq-r3-small", maxrefs=3, nkeys=1, maxlen=2, scalars=[("int", 1), ("float", 4)], ops=["NewList", "NewObject", "Add", "Set", "Unset", "Pop"],
                 obs="equals,getters", conc=["plain", "long"], depth=3, walks=4000, walklen=20, invariants=["TypeOK", "AcyclicInv", "EqualsInv"]),
            dict(name="eq-r2-k2", maxrefs=2, nkeys=2, maxlen=3, scalars=eqs, ops=["NewList", "NewObject", "Add", "Set", "Unset", "Pop", "Replace"],
                 obs="equals,getters", conc=["weird"], depth=3, walks=4000, walklen=20, invariants=["TypeOK", "AcyclicInv", "EqualsInv"]),
            dict(name="eq-lits", maxrefs=4, nkeys=1, maxlen=2, scalars=[("int", 1)], lits=[("L", []), ("O", {})], arglits=[1, 2], argrefs=False,
                 ops=["NewList", "NewObject", "Add", "Set"], obs="equals", conc=["plain"], depth=3, walks=3000, walklen=12, invariants=["TypeOK", "AcyclicInv", "EqualsInv"]),
            # objects that hold an (equal) nested object AND differ elsewhere: the verdict must not be taken from the first field visited
            dict(name="eq-nested-k2", maxrefs=3, buildrefs=3, nkeys=2, maxlen=0, scalars=[("int", 1), ("int", 2)], ops=["NewObject", "Set", "Unset"],
                 obs="equals", conc=["plain"], depth=3, walks=3000, walklen=12, invariants=["TypeOK", "AcyclicInv", "EqualsInv"]),
            # adjacent float64 values (float tokens 4 and 5 under the extreme concretisation)
            dict(name="eq-adjacent", maxrefs=3, nkeys=1, maxlen=2, scalars=[("float", 4), ("float", 5), ("int", 2), ("int", 3)], ops=["NewList", "NewObject", "Add", "Set"],
                 obs="equals", conc=["extreme"], depth=3, walks=3000, walklen=12, invariants=["TypeOK", "AcyclicInv", "EqualsInv"]),
        ]
        if q:
            return base
        return base + [
            dict(name="eq-r3", maxrefs=3, nkeys=2, maxlen=2, scalars=eqs, ops=["NewList", "NewObject", "Add", "Set", "Unset", "Pop"],
                 obs="equals", conc=["plain"], depth=3, walks=100000, walklen=20, invariants=["TypeOK", "AcyclicInv", "EqualsInv"],
                 tlc_timeout=1500, budget="15m"),
        ]
    if prop == "C08":
        base = [
            dict(name="clone-r4", maxrefs=4, nkeys=1, maxlen=1, scalars=[("int", 1)],
                 ops=["NewList", "NewObject", "Clone", "CloneO", "Add", "Replace", "Pop", "Set", "Unset", "SetTF", "UnsetTF"],
                 tfkeys=1, tfidx=0, tflen=2, conc=["tf"], obs="equals,getters", depth=3, walks=6000, walklen=30),
            # clones of containers that were themselves produced by derivations
            dict(name="clone-derived-r5", maxrefs=5, buildrefs=2, nkeys=1, maxlen=2, scalars=[("int", 1)], slack=0,
                 ops=["NewList", "NewObject", "Clone", "CloneO", "SubList", "Concat", "FilterAll", "MapId", "Values", "Pluck", "Merge", "MapIdO"],
                 conc=["plain", "long"], obs="equals", depth=4, walks=4000, walklen=12),
            dict(name="clone-listof", maxrefs=3, nkeys=1, maxlen=3, scalars=[("int", 1), ("int", 2)], argrefs=False, slack=0,
                 ops=["NewListOf", "Replace", "Clone", "Add", "Pop"], conc=["plain"], obs="equals", depth=3, walks=3000, walklen=15),
            dict(name="clone-insert", maxrefs=2, nkeys=1, maxlen=4, scalars=[("int", 1), ("int", 2)], argrefs=False, slack=0,
                 ops=["NewList", "NewList2", "Add", "Insert", "Clone", "Pop", "Sort"], conc=["plain"], obs="equals", depth=4, walks=3000, walklen=15),
            # user types embedding List/Object nested below the cloned node
            dict(name="clone-ego", maxrefs=4, nkeys=1, maxlen=1, scalars=[("int", 1)], ops=["NewList", "NewObject", "Add", "Set", "Clone", "CloneO"],
                 conc=["plain"], derived=[1], obs="getters", depth=3, walks=2000, walklen=10),
            dict(name="clone-table", maxrefs=8, buildrefs=4, nkeys=1, maxlen=2, scalars=[("int", 1)], lits=[("L", [])], arglits=[1], ops=["NewObject", "NewListRR", "Clone"],
                 conc=["plain"], obs="equals", depth=4, walks=3000, walklen=8),
            dict(name="clone-alias-r5", maxrefs=5, buildrefs=2, nkeys=1, maxlen=2, scalars=[("int", 1)],
                 ops=["NewList", "NewList2", "NewListOf", "NewObject", "Clone", "CloneO"],
                 conc=["plain"], obs="equals", depth=4, walks=2000, walklen=10),
        ]
        if q:
            return base
        return base + [
            # (measured: five cells, or four cells with two keys / three elements, do not finish within 25 minutes; the thorough
            # tier walks the four-cell graph deeper instead)
            dict(name="clone-r4-deep", maxrefs=4, nkeys=1, maxlen=1, scalars=[("int", 1)],
                 ops=["NewList", "NewObject", "Clone", "CloneO", "Add", "Replace", "Pop", "Set", "Unset", "SetTF", "UnsetTF"],
                 tfkeys=1, tfidx=0, tflen=2, conc=["tf", "long"], obs="equals,getters", depth=4, walks=200000, walklen=40, budget="10m"),
        ]
    if prop == "C09":
        LOPS = ["Add", "Pop", "Delete", "Insert", "Replace", "Clear", "Sort", "Reverse", "Concat", "SubList", "FilterAll", "MapId", "Slice", "GoSet", "GoAppend"]
        base = [
            dict(name="derive-r3-l2", maxrefs=3, nkeys=1, maxlen=2, scalars=[("int", 1), ("int", 2)], ops=["NewList", "NewList2"] + LOPS,
                 slack=0, argrefs=False, conc=["plain", "long"], obs="getters,index,strings", depth=3, walks=20000, walklen=40),
            dict(name="derive-r2-l4", maxrefs=2, nkeys=1, maxlen=4, scalars=[("int", 1), ("int", 2)], ops=["NewList", "NewList2", "NewList3"] + LOPS,
                 slack=0, argrefs=False, conc=["extreme"], obs="getters,index", depth=3, walks=20000, walklen=50),
            dict(name="derive-obj-r3", maxrefs=3, nkeys=2, maxlen=2, scalars=[("int", 1), ("int", 2)], argrefs=False,
                 ops=["NewObject", "Set", "Unset", "ClearO", "Keys", "Values", "Merge", "Pluck", "Dict", "MapIdO", "GoSet", "GoDelete", "Add", "Pop", "Sort",
                      "Replace", "Reverse", "Delete"],
                 conc=["weird"], obs="getters,index,strings", depth=3, walks=6000, walklen=40),
        ]
        if q:
            return base
        return base + [
            dict(name="derive-r3-l3", maxrefs=3, nkeys=1, maxlen=3, scalars=[("int", 1), ("int", 2)], ops=["NewList", "NewList2", "NewList3"] + LOPS,
                 slack=0, argrefs=False, conc=["plain"], obs="getters", depth=3, walks=300000, walklen=50, tlc_timeout=1500, budget="12m"),
            dict(name="derive-nest-r3", maxrefs=3, nkeys=2, maxlen=2, scalars=[("int", 1)],
                 ops=["NewObject", "NewList", "Set", "Unset", "Keys", "Values", "Merge", "Pluck", "Dict", "MapIdO", "GoSet", "Add", "Pop", "Concat", "SubList"],
                 conc=["weird"], obs="getters,index", depth=3, walks=200000, walklen=40, tlc_timeout=1500, budget="12m"),
        ]
    if prop == "C10":
        RO = ["NewList", "NewObject", "Add", "Set", "Unset", "Pop", "Replace"]
        base = [
            dict(name="tfread-r3-k1", maxrefs=3, nkeys=1, maxlen=1, scalars=[("int", 1)], ops=RO, tfread=3,
                 conc=["tf", "long"], obs="tf,malform", depth=4, walks=6000, walklen=25),
            dict(name="tfread-r2-k2", maxrefs=2, nkeys=2, maxlen=2, scalars=[("int", 1), ("nil", 0)], ops=RO, tfread=2,
                 conc=["tf"], obs="tf,malform", depth=3, walks=6000, walklen=25),
            # field names that spell whole paths (".a.b" must go a -> b even when a field "a.b" exists)
            dict(name="tfread-shadow", maxrefs=2, nkeys=3, maxlen=1, scalars=[("int", 1), ("int", 2)], argrefs=True,
                 ops=["NewObject", "NewList", "Set", "Add"], tfkeys=2, tfidx=1, tflen=2, tfread=2, tfreadkeys=2,
                 conc=["tfdots"], obs="tf,malform", depth=4, walks=3000, walklen=15),
        ]
        if q:
            return base
        return base + [
            dict(name="tfread-r3-k2", maxrefs=3, nkeys=2, maxlen=2, scalars=[("int", 1)], ops=RO, tfread=3,
                 conc=["tf"], obs="tf,malform", depth=3, walks=50000, walklen=25, obsevery=2, tlc_timeout=1800, budget="12m"),
            dict(name="tfread-r4-k1", maxrefs=4, nkeys=1, maxlen=1, scalars=[("int", 1)], ops=RO, tfread=4,
                 conc=["tf"], obs="tf", depth=4, walks=50000, walklen=25, obsevery=2, tlc_timeout=1800, budget="12m"),
        ]
    if prop == "C11":
        WO = ["NewList", "NewObject", "SetTF", "UnsetTF"]
        base = [
            dict(name="tfwrite-r3", maxrefs=3, nkeys=1, maxlen=2, scalars=[("int", 1)], lits=[("L", [("int", 7)])], arglits=[1],
                 ops=WO, tfkeys=1, tfidx=1, tflen=2, tfread=2, conc=["tf", "long"], derived=[0, 1], obs="tf,getters", depth=3, walks=6000, walklen=25, obsevery=2),
            # writes into lists whose element storage is shared with other lists (NewListOf, SubList, Concat)
            dict(name="tfwrite-shared", maxrefs=2, nkeys=1, maxlen=3, scalars=[("int", 1), ("int", 2)], argrefs=False, slack=0,
                 ops=["NewListOf", "NewList2", "SubList", "SetTF", "UnsetTF"], tfkeys=1, tfidx=2, tflen=1, tfread=1,
                 conc=["tf"], obs="getters", depth=3, walks=3000, walklen=15),
        ]
        if q:
            return base
        return base + [
            dict(name="tfwrite-r3-k2", maxrefs=3, nkeys=2, maxlen=3, scalars=[("int", 1)], argrefs=False,
                 ops=WO, tfkeys=2, tfidx=2, tflen=2, tfread=2, conc=["tf"], obs="tf", depth=3, walks=100000, walklen=25, obsevery=2,
                 tlc_timeout=1800, budget="12m"),
            dict(name="tfwrite-r4-len3", maxrefs=4, nkeys=1, maxlen=1, scalars=[("int", 1)],
                 ops=WO, tfkeys=1, tfidx=0, tflen=3, tfread=3, conc=["tf"], obs="tf", depth=3, walks=100000, walklen=25, obsevery=2,
                 tlc_timeout=1800, budget="12m"),
        ]
    if prop == "C13":
        NO = ["NewGoSlice", "NewGoMap", "NewListFrom", "NewObjectFrom", "NativeSlice", "NativeDict", "Slice", "Dict",
              "GoSet", "GoAppend", "GoDelete", "Add", "Pop", "Set", "Unset", "NewList", "NewObject"]
        base = [
            dict(name="native-r3", maxrefs=3, nkeys=1, maxlen=2, scalars=[("int", 1)], ops=NO,
                 conc=["weird", "long"], obs="getters", depth=3, walks=10000, walklen=30),
            # a list directly inside a list that itself holds a container; repeated conversions around a nested change
            # (also with user-derived containers inside: they are Lists/Objects like any other and must be converted)
            dict(name="native-nest", maxrefs=6, buildrefs=3, nkeys=1, maxlen=1, scalars=[("int", 1)], ops=["NewList", "NewObject", "NativeSlice", "NativeDict"],
                 conc=["plain"], derived=[0, 1], obs="getters", depth=5, walks=2000, walklen=8),
            dict(name="native-again", maxrefs=6, buildrefs=2, nkeys=1, maxlen=2, scalars=[("int", 1)], ops=["NewList", "NewObject", "Add", "NativeSlice", "NativeDict"],
                 conc=["plain"], obs="getters", depth=5, walks=3000, walklen=10),
            # conversions of derivation results (Concat of a flat list with a list holding containers, SubList ...)
            dict(name="native-concat", maxrefs=6, buildrefs=3, nkeys=1, maxlen=2, scalars=[("int", 1)], slack=0,
                 ops=["NewList", "NewObject", "Concat", "NativeSlice"], conc=["plain"], obs="getters", depth=5, walks=3000, walklen=8),
            # strings and keys that are not valid UTF-8
            dict(name="native-bytes", maxrefs=3, nkeys=2, maxlen=2, scalars=[("str", 1), ("str", 2)], argrefs=False,
                 ops=["NewList", "NewList2", "NewObject", "Set", "NativeSlice", "NativeDict"],
                 conc=["bytes"], obs="getters", depth=3, walks=2000, walklen=8),
            # aliasing inside the converted container (one container stored twice)
            dict(name="native-alias-r5", maxrefs=5, buildrefs=2, nkeys=1, maxlen=2, scalars=[("int", 1)],
                 ops=["NewList", "NewList2", "NewListOf", "NewObject", "NativeSlice", "NativeDict", "Slice", "Dict"],
                 conc=["plain"], obs="getters", depth=4, walks=2000, walklen=10),
        ]
        if q:
            return base
        return base + [
            dict(name="native-alias-r6", maxrefs=6, buildrefs=3, nkeys=1, maxlen=2, scalars=[("int", 1)],
                 ops=["NewList", "NewListOf", "NewObject", "NativeSlice", "NativeDict"],
                 conc=["plain"], obs="getters", depth=4, walks=20000, walklen=10),
            dict(name="native-r4", maxrefs=4, buildrefs=3, nkeys=1, maxlen=2, scalars=[("int", 1)], slack=0, ops=NO,
                 conc=["plain"], obs="getters", depth=3, walks=200000, walklen=30, tlc_timeout=1800, budget="12m"),
        ]
    if prop == "C19":
        allops = ["NewList", "NewObject", "NewListOf"] + LIST_MUT + ["SortAny", "SubList", "Clone"] + OBJ_MUT + ["Keys", "Values", "Pluck", "CloneO", "SetTF", "UnsetTF"]
        base = [
            dict(name="ego-r3-l1", maxrefs=3, nkeys=1, maxlen=1, scalars=[("int", 1)], ops=allops, tfkeys=1, tfidx=0, tflen=2, tfread=2,
                 conc=["tf", "long"], derived=[1, 2], obs="getters,index,tf", depth=3, walks=4000, walklen=30),
            dict(name="ego-r2-l2", maxrefs=2, nkeys=1, maxlen=2, scalars=[("int", 1)], ops=allops, tfkeys=1, tfidx=1, tflen=2, tfread=2,
                 conc=["tf"], derived=[1, 2], obs="getters,index,tf", depth=3, walks=4000, walklen=30),
        ]
        if q:
            return base
        return base + [
            dict(name="ego-r3-l2", maxrefs=3, nkeys=1, maxlen=2, scalars=[("int", 1)], ops=allops, tfkeys=1, tfidx=1, tflen=2, tfread=2,
                 conc=["tf"], derived=[1, 2], obs="getters,tf", depth=3, walks=100000, walklen=30, obsevery=2, tlc_timeout=1800, budget="12m"),
        ]
    raise KeyError(prop)
