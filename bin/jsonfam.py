"""JSON text family: spec/JsonText.tla (RFC 8259 as a pushdown machine) enumerated by TLC; the Go
harness concretises the abstract documents and checks serialiser / parser (C01 C02 C03 C04 C16 C20)."""
import json, os, time
from vlib import *

STR_ALL = ["empty", "ascii", "quote", "backslash", "slash", "c0short", "c0other", "del", "latin1np", "ls", "fffd", "bmp",
           "bmpnp", "astral", "astralnp", "sigils", "brackets", "long"]
NUM_ALL = ["int0", "int1", "intneg", "intmax", "intmin", "wholeFloat", "negZero", "frac", "e6", "em6", "expBig", "expSmall",
           "sub", "maxFloat", "dig17", "randInt", "randFloat"]

JDEF = dict(maxtoks=7, maxdepth=2, maxwidth=3, roots=["[", "{"], strbasic=["ascii"], strfocus=STR_ALL, numbasic=["int1"], numfocus=NUM_ALL,
            lits=["null", "true"], keybasic=["ascii"], keyfocus=STR_ALL, wskinds=[], wsbudget=0, prekinds=[], mode="valid",
            badkinds=[], taillen=0, invariants=["TypeOK", "RefAgree", "LayoutOK"], tlc_timeout=900)


def sset(xs):
    return "{" + ", ".join('"%s"' % x for x in xs) + "}"


def gen_json_mc(c):
    mod = "---- MODULE MC ----\nEXTENDS JsonText\n====\n"
    cfg = """CONSTANTS
 MaxToks = %d
 MaxDepth = %d
 MaxWidth = %d
 Roots = %s
 StrBasic = %s
 StrFocus = %s
 NumBasic = %s
 NumFocus = %s
 Lits = %s
 KeyBasic = %s
 KeyFocus = %s
 WsKinds = %s
 WsBudget = %d
 PreKinds = %s
 Mode = "%s"
 BadKinds = %s
 TailLen = %d
 Emit = TRUE
SPECIFICATION Spec
INVARIANTS %s
CHECK_DEADLOCK FALSE
""" % (c["maxtoks"], c["maxdepth"], c["maxwidth"], sset(c["roots"]), sset(c["strbasic"]), sset(c["strfocus"]), sset(c["numbasic"]),
       sset(c["numfocus"]), sset(c["lits"]), sset(c["keybasic"]), sset(c["keyfocus"]), sset(c["wskinds"]), c["wsbudget"],
       sset(c["prekinds"]), c["mode"], sset(c["badkinds"]), c["taillen"], " ".join(c["invariants"]))
    return mod, cfg


def run_tlc_docs(scratch, name, c0):
    c = dict(JDEF)
    c.update(c0)
    mod, cfg = gen_json_mc(c)
    res = run_tlc(scratch, name, mod, cfg, ["JsonText.tla"], c["tlc_timeout"])
    if not res["ok"]:
        raise Inconclusive("TLC did not finish cleanly on %s (rc=%s):\n%s" % (name, res["rc"], res["tail"][-3000:]))
    log("[tlc] %s: %d states, %d transitions, %.1fs" % (name, res["states"], res["transitions"], res["wall_s"]))
    return res, c


def new_cov(rule, cmd):
    return dict(states=0, transitions=0, traces_validated_against_impl=0, evaluations=0, distinct_nontrivial=0, configs=[], samples=[],
                exhaustive=True, spec_drift=[], rule=rule, checker_cmd=cmd)


def run_ser(prop, tier, seed, scratch, check):
    """C01 / C02 / C16: TLC-enumerated value trees built with the API and serialised by the library."""
    vh = build_harness(scratch)
    q = tier == "quick"
    cov = new_cov("TLC enumerates every JSON document (token sequence of the JsonRef pushdown machine) inside the bounds, with one focus leaf/key "
                  "ranging over all scalar classes; the harness builds each tree with the real API (several members per class, three entry-point "
                  "styles), then sweeps class members TLC cannot enumerate (code points, float64/int samples, deep random trees). "
                  "distinct_nontrivial = distinct concrete trees + distinct code points checked.", "tlc MC.tla (spec/JsonText.tla) ; vh ser -check " + check)
    configs = [dict(name="docs9", maxtoks=9, maxdepth=3, maxwidth=3, lits=["null", "true", "false"])]
    if not q:
        configs = [dict(name="docs12", maxtoks=12, maxdepth=3, maxwidth=3, lits=["null", "true"], tlc_timeout=1800)]
    violations = []
    for ci, c0 in enumerate(configs):
        name = "%s-%s" % (prop, c0["name"])
        res, c = run_tlc_docs(scratch, name, c0)
        cov["states"] += res["states"]
        cov["transitions"] += res["transitions"]
        out = scratch.path("ser-%s.json" % name)
        args = ["ser", "-in", res["out_path"], "-prop", prop, "-check", check, "-seed", str(seed),
                "-picks", "2" if q else "4", "-codepoints", "sample" if q else "all",
                "-floats", "20000" if q else "2000000", "-deep", "300" if q else "20000",
                "-out", out, "-replaydir", scratch.sub("replays")]
        rc, so, se, wall = run_vh(vh, args, 3600)
        s = json.load(open(out))
        log("[ser] %s check=%s: %d TLC documents, %d evaluations, %d distinct, %d code points, %.1fs"
            % (name, check, s["tlc_documents"], s["evaluations"], s["distinct"], s["code_points"], wall))
        cov["traces_validated_against_impl"] += s["tlc_documents"] * s["picks"]
        cov["evaluations"] += s["evaluations"]
        cov["distinct_nontrivial"] += s["distinct"]
        cov["configs"].append(dict(name=name, constants={k: c[k] for k in ("maxtoks", "maxdepth", "maxwidth")}, tlc_states=res["states"],
                                   tlc_transitions=res["transitions"], tlc_documents=s["tlc_documents"], picks=s["picks"],
                                   code_points=s["code_points"], random_numbers=s["random_numbers"], deep_trees=s["deep_trees"],
                                   invariants=c["invariants"], string_classes=c["strfocus"], number_classes=c["numfocus"]))
        cov["samples"] += (s.get("samples") or [])[:3]
        for v in (s.get("violations") or []):
            v["config"] = name
            violations.append(v)
        try:
            os.remove(res["out_path"])
        except OSError:
            pass
    if not q:
        cov["exhaustive_note"] = "all 1,112,064 Unicode scalar values as value and key; float64 is sampled"
    return cov, violations


SPELLINGS = ["raw", "short", "ulow", "uup", "mixed"]
NUMLIT_ALL = ["int", "negzero", "intmax", "intmin", "intover", "frac", "exp", "big", "tiny", "round"]


def simple_run(prop, scratch, name, c0, vh_args, label, cov, violations, count_key="tlc_documents"):
    vh = build_harness(scratch)
    res, c = run_tlc_docs(scratch, name, c0)
    cov["states"] += res["states"]
    cov["transitions"] += res["transitions"]
    out = scratch.path("%s-%s.json" % (label, name))
    rc, so, se, wall = run_vh(vh, vh_args(res["out_path"]) + ["-out", out, "-replaydir", scratch.sub("replays")], 3600)
    s = json.load(open(out))
    log("[%s] %s: %s TLC records, %d evaluations, %d distinct, %.1fs" % (label, name, s.get(count_key), s["evaluations"], s["distinct"], wall))
    cov["traces_validated_against_impl"] += int(s.get(count_key) or 0) * int(s.get("picks", 1) or 1)
    cov["evaluations"] += s["evaluations"]
    cov["distinct_nontrivial"] += s["distinct"]
    entry = dict(name=name, constants={k: c[k] for k in ("maxtoks", "maxdepth", "maxwidth", "wsbudget", "taillen")}, tlc_states=res["states"],
                 tlc_transitions=res["transitions"], invariants=c["invariants"])
    for k, v in s.items():
        if k not in ("samples", "violations", "evaluations", "distinct"):
            entry[k] = v
    cov["configs"].append(entry)
    cov["samples"] += (s.get("samples") or [])[:3]
    for v in (s.get("violations") or []):
        v["config"] = name
        violations.append(v)
    try:
        os.remove(res["out_path"])
    except OSError:
        pass



def run_parse(prop, tier, seed, scratch):
    """C03: every derivation of the JSON grammar inside the bounds, every gap with whitespace, every escape / number spelling."""
    q = tier == "quick"
    cov = new_cov("TLC enumerates every valid document (token sequence accepted by the JsonRef pushdown machine) inside the bounds: all shapes, "
                  "whitespace tokens in every gap (budgeted), text before the root bracket, duplicate keys, one focus string/key over all "
                  "(class x escape spelling) pairs and one focus number over all literal spellings; each is concretised (several members per class), "
                  "validated by encoding/json and a strict RFC 8259 reader, parsed by ParseList/ParseObject (also with trailing text) and the result "
                  "walked with TypeOf/Get against TLC's tree. Plus every code point in every escape spelling. "
                  "distinct_nontrivial = distinct document texts + distinct code points.", "tlc MC.tla (spec/JsonText.tla) ; vh parse")
    violations = []
    strfocus = ["%s~%s" % (c, s) for c in STR_ALL if c != "long" for s in SPELLINGS] + ["long~raw", "long~mixed"]
    base = dict(strbasic=["ascii~raw"], strfocus=strfocus, keybasic=["ascii~raw", "dup"], keyfocus=strfocus, numbasic=["int"], numfocus=NUMLIT_ALL,
                lits=["null", "true", "false"], prekinds=["txt", "NL"], invariants=["TypeOK", "RefAgree"])
    cfgs = [dict(base, name="valid-t7-ws1", maxtoks=8, maxdepth=2, wskinds=["SP", "NL", "TAB", "CR", "MIX"], wsbudget=1)]
    if not q:
        cfgs = [dict(base, name="valid-t9-ws1", maxtoks=9, maxdepth=3, wskinds=["SP", "NL", "TAB", "CR", "MIX"], wsbudget=1, tlc_timeout=1800),
                dict(base, name="valid-t7-ws2", maxtoks=7, maxdepth=2, wskinds=["SP", "NL", "TAB", "CR", "CRLF", "MIX", "SP3"], wsbudget=2, tlc_timeout=1800)]
    for c0 in cfgs:
        simple_run(prop, scratch, "%s-%s" % (prop, c0["name"]), c0,
                   lambda p: ["parse", "-in", p, "-prop", prop, "-seed", str(seed), "-picks", "2" if q else "3",
                              "-codepoints", "sample" if q else "all"], "parse", cov, violations)
    return cov, violations


def run_total(prop, tier, seed, scratch):
    """C04."""
    q = tier == "quick"
    cov = new_cov("(1) every byte string up to the length bound over a 16-byte alphabet (brackets, separators, quote, backslash, blank, newline, a digit, a letter, "
                  "a stray character and three ill-formed UTF-8 bytes) and seeded random byte strings through ParseList and ParseObject: no panic, no hang "
                  "(watchdog), exactly one of (container, error), same outcome twice; (2) every proper prefix of String() of every TLC-enumerated tree "
                  "(and of random deep trees) must be rejected; (3) 18 kinds of ill-formed UTF-8 inserted at every byte position between the root brackets "
                  "must be rejected; (4) ParseFile equals ParseObject on the same bytes, unreadable paths give an error. "
                  "distinct_nontrivial = distinct byte strings + distinct documents.", "tlc MC.tla (spec/JsonText.tla) ; vh total")
    violations = []
    c0 = dict(name="docs7", maxtoks=7, maxdepth=2, strfocus=STR_ALL, keyfocus=STR_ALL, numfocus=["int1", "wholeFloat", "expBig", "frac"])
    if not q:
        c0 = dict(name="docs8", maxtoks=8, maxdepth=3, strfocus=STR_ALL, keyfocus=STR_ALL, numfocus=NUM_ALL)
    simple_run(prop, scratch, "%s-%s" % (prop, c0["name"]), c0,
               lambda p: ["total", "-in", p, "-prop", prop, "-seed", str(seed), "-strlen", "4" if q else "5",
                          "-random", "20000" if q else "2000000", "-picks", "1" if q else "2"], "total", cov, violations)
    if not violations:
        run_parser_sm(prop, tier, scratch, cov)
    return cov, violations


def run_parser_sm(prop, tier, scratch, cov):
    """Implementation-shaped model of the parser (spec/ParserSM.tla): design-level invariants by TLC, then every generated input
    through the real parser with the verifStep hook. Differences are SPEC-DRIFT, never violations (DESIGN 1.3)."""
    q = tier == "quick"
    vh = build_harness(scratch)
    mod = "---- MODULE MC ----\nEXTENDS ParserSM\n====\n"
    cfg = ('CONSTANTS\n MaxLen = %d\n MaxDepth = 3\n Classes = {"{", "}", "[", "]", ",", ":", "q", "b", "s", "n", "d", "x", "i"}\n Roots = {"[", "{"}\n Emit = TRUE\n'
           'SPECIFICATION Spec\nINVARIANTS TypeOK NoErrorOnViablePrefix AcceptTogether TreeAgree OkOnlyAtRootClose IllAlwaysError LineOK TraceOK\nCHECK_DEADLOCK FALSE\n'
           % (6 if q else 7))
    res = run_tlc(scratch, prop + "-parsersm", mod, cfg, ["ParserSM.tla"], 1800)
    if not res["ok"]:
        cov["spec_drift"].append("ParserSM.tla: TLC reports a problem in the implementation-shaped model itself: " + res["tail"][-500:])
        log("[parser-sm] TLC did not finish cleanly: recorded as spec drift, no verdict taken from it")
        return
    out = scratch.path("sm.json")
    rc, so, se, wall = run_vh(vh, ["sm", "-in", res["out_path"], "-out", out], 1800)
    s = json.load(open(out))
    cov["states"] += res["states"]
    cov["transitions"] += res["transitions"]
    cov["parser_sm"] = dict(tlc_states=res["states"], tlc_transitions=res["transitions"], max_input_len=6 if q else 7,
                            invariants=["NoErrorOnViablePrefix", "AcceptTogether", "TreeAgree", "OkOnlyAtRootClose", "IllAlwaysError", "LineOK"],
                            inputs_replayed_with_hook=s["inputs"], state_class_triples_driven=s["state_class_triples_driven"],
                            spec_drift=len(s.get("spec_drift") or []))
    for d in (s.get("spec_drift") or []):
        cov["spec_drift"].append("ParserSM.tla vs parser.go: " + d)
    cov["traces_validated_against_impl"] += s["inputs"]
    log("[parser-sm] %d states; %d inputs replayed with the hook, %d (machine,state,class) triples driven, %d drift" %
        (res["states"], s["inputs"], s["state_class_triples_driven"], len(s.get("spec_drift") or [])))
    try:
        os.remove(res["out_path"])
    except OSError:
        pass
    # code -> spec: long random inputs recorded through the hook, validated by TLC against ParserSM (ParserSMTrace.tla)
    trace = scratch.path("smtrace.ndjson")
    rc, so, se, wall = run_vh(vh, ["smtrace", "-trace", trace, "-n", "400" if q else "4000", "-maxlen", "300" if q else "600", "-seed", "1"], 600)
    info = json.loads(so.strip().split("\n")[-1])
    tmod = "---- MODULE MC ----\nEXTENDS ParserSMTrace\n====\n"
    tcfg = ('CONSTANTS\n MaxLen = 0\n MaxDepth = 0\n Classes = {}\n Roots = {}\n Emit = FALSE\n TraceFile = "%s"\nSPECIFICATION TraceSpec\n'
            'INVARIANTS TypeOK NoErrorOnViablePrefix AcceptTogether TreeAgree OkOnlyAtRootClose LineOK\nCONSTRAINT Mark\nPOSTCONDITION TraceAccepted\nCHECK_DEADLOCK FALSE\n' % trace)
    tres = run_tlc(scratch, prop + "-parsersm-trace", tmod, tcfg, ["ParserSM.tla", "ParserSMTrace.tla"], 900, workers=1)
    cov["states"] += tres.get("states", 0)
    cov["transitions"] += tres.get("transitions", 0)
    cov["parser_sm"]["recorded_inputs"] = info["inputs"]
    cov["parser_sm"]["recorded_char_events"] = info["char_events"]
    cov["parser_sm"]["recorded_trace_accepted"] = bool(tres["ok"])
    if tres["ok"]:
        cov["traces_validated_against_impl"] += info["inputs"]
        log("[parser-sm] %d recorded runs (%d character events) of the real parser accepted by ParserSMTrace.tla" % (info["inputs"], info["char_events"]))
    else:
        cov["spec_drift"].append("ParserSMTrace.tla rejects a recorded run of the real parser at event %s: %s" % (tres.get("states"), tres["tail"][-400:].replace("\n", " ")))
        log("[parser-sm] recorded runs REJECTED by ParserSMTrace.tla (spec drift, no verdict)")


def run_errline(prop, tier, seed, scratch):
    """C20."""
    q = tier == "quick"
    cov = new_cov("TLC (JsonText, Mode = error) enumerates every viable document prefix inside the bounds (newline / blank tokens in every gap, text and newlines "
                  "before the root bracket), injects one bad token (stray character, invalid literal, ';' for ':', unquoted key) at every position where it is "
                  "an error, appends every tail of delimiters/newlines up to the tail bound, and computes the line of every token. For each text, if the real "
                  "parser's error cites a line it must lie between the bad token and the delimiter terminating it, must be the line of the character the message "
                  "names, and must equal the line of the byte the state machine was handling when it returned (verifStep hook). "
                  "distinct_nontrivial = distinct texts.", "tlc MC.tla (spec/JsonText.tla, Mode=error) ; vh errline")
    violations = []
    base = dict(mode="error", strbasic=["ascii"], strfocus=[], numbasic=["int"], numfocus=[], lits=["null"], keybasic=["ascii"], keyfocus=[],
                wskinds=["NL", "SP", "LS"], prekinds=["txt", "NL", "LS"], badkinds=["@", "lit", ";", "ukey"], invariants=["TypeOK"])
    cfgs = [dict(base, name="err-t6", maxtoks=8, maxdepth=2, maxwidth=2, wsbudget=2, taillen=2)]
    if not q:
        cfgs = [dict(base, name="err-t8", maxtoks=10, maxdepth=3, maxwidth=2, wsbudget=3, taillen=3, tlc_timeout=1800)]
    for c0 in cfgs:
        simple_run(prop, scratch, "%s-%s" % (prop, c0["name"]), c0,
                   lambda p: ["errline", "-in", p, "-prop", prop, "-seed", str(seed)], "errline", cov, violations, count_key="tlc_records")
    return cov, violations
