"""JSON text family: spec/JsonText.tla (RFC 8259 as a pushdown machine) enumerated by TLC; the Go
harness concretises the abstract documents and checks serialiser / parser (C01 C02 C03 C04 C16 C20)."""
import json, os, time
from vlib import *

STR_ALL = ["empty", "ascii", "quote", "backslash", "slash", "c0short", "c0other", "del", "latin1np", "ls", "fffd", "bmp",
           "bmpnp", "astral", "astralnp", "sigils", "brackets", "long"]
NUM_ALL = ["int0", "int1", "intneg", "intmax", "intmin", "wholeFloat", "negZero", "frac", "e6", "em6", "expBig", "expSmall",
           "sub", "maxFloat", "dig17", "randInt", "randFloat"]

JDEF = dict(maxtoks=7, maxdepth=2, maxwidth=3, roots=["[", "{"], strbasic=["ascii"], strfocus=STR_ALL, numbasic=["int1"], numfocus=NUM_ALL,
            lits=["null", "true"], keybasic=["ascii"], keyfocus=STR_ALL, wskinds=[], wsbudget=0, prekinds=[], mode="valid",
            badkinds=[], taillen=0, invariants=["TypeOK", "RefAgree", "LayoutOK"], tlc_timeout=900)


def sset(xs):
    return "{" + ", ".join('"%s"' % x for x in xs) + "}"


def gen_json_mc(c):
    mod = "---- MODULE MC ----\nEXTENDS JsonText\n====\n"
    cfg = """CONSTANTS
 MaxToks = %d
 MaxDepth = %d
 MaxWidth = %d
 Roots = %s
 StrBasic = %s
 StrFocus = %s
 NumBasic = %s
 NumFocus = %s
 Lits = %s
 KeyBasic = %s
 KeyFocus = %s
 WsKinds = %s
 WsBudget = %d
 PreKinds = %s
 Mode = "%s"
 BadKinds = %s
 TailLen = %d
 Emit = TRUE
SPECIFICATION Spec
INVARIANTS %s
CHECK_DEADLOCK FALSE
""" % (c["maxtoks"], c["maxdepth"], c["maxwidth"], sset(c["roots"]), sset(c["strbasic"]), sset(c["strfocus"]), sset(c["numbasic"]),
       sset(c["numfocus"]), sset(c["lits"]), sset(c["keybasic"]), sset(c["keyfocus"]), sset(c["wskinds"]), c["wsbudget"],
       sset(c["prekinds"]), c["mode"], sset(c["badkinds"]), c["taillen"], " ".join(c["invariants"]))
    return mod, cfg


def run_tlc_docs(scratch, name, c0):
    c = dict(JDEF)
    c.update(c0)
    mod, cfg = gen_json_mc(c)
    res = run_tlc(scratch, name, mod, cfg, ["JsonText.tla"], c["tlc_timeout"])
    if not res["ok"]:
        raise Inconclusive("TLC did not finish cleanly on %s (rc=%s):\n%s" % (name, res["rc"], res["tail"][-3000:]))
    log("[tlc] %s: %d states, %d transitions, %.1fs" % (name, res["states"], res["transitions"], res["wall_s"]))
    return res, c


def new_cov(rule, cmd):
    return dict(states=0, transitions=0, traces_validated_against_impl=0, evaluations=0, distinct_nontrivial=0, configs=[], samples=[],
                exhaustive=True, spec_drift=[], rule=rule, checker_cmd=cmd)


def run_ser(prop, tier, seed, scratch, check):
    """C01 / C02 / C16: TLC-enumerated value trees built with the API and serialised by the library."""
    vh = build_harness(scratch)
    q = tier == "quick"
    cov = new_cov("TLC enumerates every JSON document (token sequence of the JsonRef pushdown machine) inside the bounds, with one focus leaf/key "
                  "ranging over all scalar classes; the harness builds each tree with the real API (several members per class, three entry-point "
                  "styles), then sweeps class members TLC cannot enumerate (code points, float64/int samples, deep random trees). "
                  "distinct_nontrivial = distinct concrete trees + distinct code points checked.", "tlc MC.tla (spec/JsonText.tla) ; vh ser -check " + check)
    configs = [dict(name="docs7", maxtoks=7, maxdepth=2)]
    if not q:
        configs = [dict(name="docs9", maxtoks=9, maxdepth=3, maxwidth=3, lits=["null", "true", "false"])]
    violations = []
    for ci, c0 in enumerate(configs):
        name = "%s-%s" % (prop, c0["name"])
        res, c = run_tlc_docs(scratch, name, c0)
        cov["states"] += res["states"]
        cov["transitions"] += res["transitions"]
        out = scratch.path("ser-%s.json" % name)
        args = ["ser", "-in", res["out_path"], "-prop", prop, "-check", check, "-seed", str(seed),
                "-picks", "2" if q else "4", "-codepoints", "sample" if q else "all",
                "-floats", "20000" if q else "2000000", "-deep", "300" if q else "20000",
                "-out", out, "-replaydir", scratch.sub("replays")]
        rc, so, se, wall = run_vh(vh, args, 3600)
        s = json.load(open(out))
        log("[ser] %s check=%s: %d TLC documents, %d evaluations, %d distinct, %d code points, %.1fs"
            % (name, check, s["tlc_documents"], s["evaluations"], s["distinct"], s["code_points"], wall))
        cov["traces_validated_against_impl"] += s["tlc_documents"] * s["picks"]
        cov["evaluations"] += s["evaluations"]
        cov["distinct_nontrivial"] += s["distinct"]
        cov["configs"].append(dict(name=name, constants={k: c[k] for k in ("maxtoks", "maxdepth", "maxwidth")}, tlc_states=res["states"],
                                   tlc_transitions=res["transitions"], tlc_documents=s["tlc_documents"], picks=s["picks"],
                                   code_points=s["code_points"], random_numbers=s["random_numbers"], deep_trees=s["deep_trees"],
                                   invariants=c["invariants"], string_classes=c["strfocus"], number_classes=c["numfocus"]))
        cov["samples"] += (s.get("samples") or [])[:3]
        for v in (s.get("violations") or []):
            v["config"] = name
            violations.append(v)
        try:
            os.remove(res["out_path"])
        except OSError:
            pass
    if not q:
        cov["exhaustive_note"] = "all 1,112,064 Unicode scalar values as value and key; float64 is sampled"
    return cov, violations
