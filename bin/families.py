"""Registry: property id -> engine (run/replay functions and MANIFEST metadata)."""
import json, os, subprocess
from vlib import *
import heapfam
import jsonfam
import viewfam
import asyncfam


def heap_run(prop, tier, seed, scratch):
    return heapfam.run_heap_family(prop, tier, seed, heapfam.configs_for(prop, tier), scratch, [], "")


def heap_replay(prop, path, scratch):
    vh = build_harness(scratch)
    v = json.load(open(path))
    if v.get("steps_file"):
        # a rejected recorded execution: re-execute its operations on the current tree and let TLC validate the new trace
        new = scratch.path("redrive.ndjson")
        p = subprocess.run([vh, "redrive", "-in", v["steps_file"], "-trace", new])
        if p.returncode != 0:
            return 2
        mod = "---- MODULE MC ----\nEXTENDS HeapTrace\nmcLits == <<>>\n====\n"
        cfg = ('CONSTANTS\n NKeys = %d\n Lits <- mcLits\n TraceFile = "%s"\nSPECIFICATION TraceSpec\nCONSTRAINT Mark\n'
               'POSTCONDITION TraceAccepted\nCHECK_DEADLOCK FALSE\n' % (v.get("nkeys", 4), new))
        res = run_tlc(scratch, prop + "-replay", mod, cfg, ["Heap.tla", "HeapTrace.tla"], 900, workers=1, heap="8g")
        if res["ok"]:
            print("replay: the re-executed program is accepted by HeapTrace.tla on this tree")
            return 0
        if "TraceAccepted" in res["tail"]:
            print("VIOLATION property=%s replay=%s" % (prop, path))
            print("  the re-executed program is rejected by HeapTrace.tla at event %d" % res.get("states", 0))
            return 1
        return 2
    if v.get("check") == "nativetrees":
        # the conversions are replayed in their recorded order up to and including the failing one (state left by earlier ones matters)
        out = scratch.path("nativetrees.json")
        p = subprocess.run([vh, "nativetrees", "-prop", prop, "-seed", str(v.get("seed", 1)), "-n", str(int(v.get("index", 0)) + 1), "-out", out], capture_output=True, text=True)
        if p.returncode == 1:
            s = json.load(open(out))
            print("VIOLATION property=%s replay=%s" % (prop, path))
            print("  " + (s.get("violations") or [{}])[0].get("message", "")[:600])
            return 1
        if p.returncode == 0:
            print("replay: the recorded sequence of conversions is handled correctly on this tree")
            return 0
        return 2
    p = subprocess.run([vh, "replayfile", "-file", path])
    return p.returncode if p.returncode in (0, 1) else 2


HEAP_ASSUME = [
    "TLC explores spec/Heap.tla exhaustively only inside the constants listed per config (coverage.configs); beyond them the walk is seeded sampling",
    "the Go replayer (harness/heapx) and the concretisation table (harness/conc) are trusted to translate operations and to compare heaps faithfully",
    "hidden implementation state (slice capacity, map layout, shared element wrappers) is reached through operation histories, not enumerated",
]

ENGINES = [
    {"name": "tlc-heap", "path": "spec/Heap.tla spec/HeapGraph.tla spec/HeapTrace.tla spec/SliceHdr.tla spec/SliceMem.tla spec/SliceTrace.tla bin/heapfam.py harness/heapx harness/cmd/vh/replay.go harness/cmd/vh/drive.go",
     "serves_properties": ["C05", "C06", "C07", "C08", "C09", "C10", "C11", "C13", "C19"],
     "kind_free_text": "explicit TLA+ model of the container heap (operations as actions, allowed outcomes as sets); TLC enumerates the reachable state graph "
                       "and checks the spec-level invariants; the Go replayer executes the graph's behaviours on the real library and compares outcome + whole heap "
                       "(with container identity) after every step"},
]

HEAP_NOTE = ("Exhaustive only inside the per-config constants (number of containers, list length, key tokens, argument values) recorded in the evidence; "
             "longer histories are seeded random walks of the same graph. Trusted: TLC, the replayer's projection of the real heap, the concretisation tables.")
HEAP_TECH = ("TLA+ heap model (Heap.tla) explored by TLC; model-based testing: every state/operation of the TLC graph, all short behaviours and random walks replayed on the real "
             "library with whole-heap comparison; recorded random programs and scripted scenarios on large containers validated by TLC against the same model (HeapTrace.tla; "
             "slice headers against SliceTrace.tla as a drift-only stage)")

REGISTRY = {}
_TEXT = {
    "C05": "TLC enumerates all heaps of a few lists/objects and every list operation with valid and invalid arguments; the sequence model of Heap.tla is the oracle for every live list after every step of every replayed behaviour (identity of nested containers included).",
    "C06": "Same engine with the object alphabet (Set/Unset/Clear/Merge/Pluck/Keys/Values/Dict, weird keys); nondeterministic where the property leaves freedom (iteration order, state after a panicking Set, nested sharing in Merge).",
    "C07": "DeepEq/Unfold in Heap.tla are checked by TLC to be an equivalence and to coincide (EqualsInv); Equals is executed for every ordered pair of same-sort containers in every visited state and compared with TLC's table.",
    "C08": "Clone is a deep-copy action with fresh references; TLC checks disjointness and DeepEq; behaviours Clone + any mutations (methods and tree-form) on either side are replayed with whole-heap identity binding.",
    "C09": "Derivations allocate exactly one fresh top-level cell (TLC: OldUnchanged); behaviours built around growth histories (Add/Pop/Delete then Concat/SubList/Filter/Map/Slice/Keys/Values/Merge/Pluck/Dict, then mutations of any party, harness writes into returned Go values) are replayed with all containers compared after each step.",
    "C10": "Resolve in Heap.tla (checked to be the left fold of single Get steps) yields, per state, the table of resolvable paths; GetTF/TypeOfTF are run on every path up to the length bound and on malformed strings in every visited state.",
    "C11": "SetTF/UnsetTF are actions (TLC: read-back, only cells on the path change, at most one cell changes on unset); every well-formed path up to the bound x value x state is replayed, with identity (reused intermediates must be the same container, replaced ones fresh).",
    "C13": "Go values held by the caller are heap cells (GS/GM): Native*/New*From are deep conversions with fresh cells (TLC: freshness, layering), Slice/Dict one-level snapshots; harness-side writes into sources/exports and container mutations are interleaved and the whole heap is compared.",
    "C19": "The same graph replayed with every container realised as a user struct embedding List/Object one and two levels deep; model references are bound to the registered outer values, so every fluent return and every retrieval path is identity-checked on every edge.",
}
for _p in ["C05", "C06", "C07", "C08", "C09", "C10", "C11", "C13", "C19"]:
    REGISTRY[_p] = dict(run=heap_run, replay=heap_replay, level="model_checking", assumptions=HEAP_ASSUME, engine="tlc-heap",
                        level_text=_TEXT[_p], level_note=HEAP_NOTE, technique=HEAP_TECH)


def ser_run(check):
    def run(prop, tier, seed, scratch):
        return jsonfam.run_ser(prop, tier, seed, scratch, check)
    return run


def doc_replay(prop, path, scratch):
    vh = build_harness(scratch)
    p = subprocess.run([vh, "docreplay", "-file", path])
    return p.returncode if p.returncode in (0, 1) else 2


JSON_ASSUME = [
    "TLC enumerates spec/JsonText.tla exhaustively only inside the token/depth/width bounds recorded in the evidence",
    "scalar classes are concretised by the harness: every Unicode scalar value in the thorough tier (sampled in quick), float64/int values sampled",
    "oracles independent of the library: encoding/json, the harness's strict RFC 8259 reader, strconv; the Go layout renderer is cross-checked against TLC's Layout on every document",
]
JSON_NOTE = ("TLC decides structure, kind and class of every document inside the bounds; the member of each class (code point, float64 bit pattern) is chosen on the Go side, "
             "exhaustively only for code points in the thorough tier. Trusted: TLC, encoding/json/strconv as reference decoders, the harness's strict reader.")
JSON_TECH = "TLA+ pushdown model of RFC 8259 (JsonText.tla) enumerated by TLC (RefAgree/LayoutOK invariants); generated documents built/parsed with the real library and judged by independent reference decoders"
ENGINES.append({"name": "tlc-json", "path": "spec/JsonText.tla bin/jsonfam.py harness/jsonx harness/cmd/vh/docs.go",
                "serves_properties": ["C01", "C02", "C16"],
                "kind_free_text": "explicit TLA+ pushdown machine for JSON documents; TLC enumerates all documents (with scalar classes) inside the bounds together with the "
                                  "reference tree and canonical layout; the Go harness concretises and runs the real serialiser/parser against independent decoders"})
_JT = {
    "C01": "Every TLC-enumerated tree (all scalar classes as value and key, both roots) is built with the API, serialised, re-parsed: no error, Equals both ways, an independent TypeOf/Get walk finds the same kinds and bit-identical floats, and a second round trip is stable; plus all code points, sampled float64/int, deep random trees.",
    "C02": "String() of every such container must be accepted by encoding/json and by a strict RFC 8259 reader, and both must decode exactly the stored data (byte-identical strings/keys, ints exact, floats bit-identical).",
    "C16": "FormatString(n), n in 0..10, must be non-empty valid JSON with the same data and scalar texts as String() and equal byte for byte to the canonical layout (TLC's Layout(tree), cross-checked with the Go renderer on every document); indents outside 0..10 (including values that wrap modulo 256) must panic; the container is unchanged.",
}
for _p, _c in [("C01", "roundtrip"), ("C02", "stdjson"), ("C16", "format")]:
    REGISTRY[_p] = dict(run=ser_run(_c), replay=doc_replay, level="model_checking", assumptions=JSON_ASSUME, engine="tlc-json",
                        level_text=_JT[_p], level_note=JSON_NOTE, technique=JSON_TECH)

_JT2 = {
    "C03": "Every valid document TLC derives from the JsonRef machine inside the bounds (all shapes, whitespace in every gap, prefix text, duplicate keys, every escape spelling of every string class, every number spelling) is parsed by the real parser and compared with TLC's reference tree and with encoding/json + strconv; every code point in every escape spelling.",
    "C04": "Exhaustive short byte strings and random ones through both entry points (no panic / hang / mixed outcome / nondeterminism), every cut point of every serialised TLC document rejected, every kind of ill-formed UTF-8 at every position rejected, ParseFile == ParseObject.",
    "C20": "For every TLC-generated text with one injected syntax error and every newline distribution inside the bounds, a cited line must be the line of the detecting character (window rule, named-character rule, and exact byte through the parser hook).",
}
for _p, _r in [("C03", jsonfam.run_parse), ("C04", jsonfam.run_total), ("C20", jsonfam.run_errline)]:
    REGISTRY[_p] = dict(run=_r, replay=doc_replay, level="model_checking", assumptions=JSON_ASSUME, engine="tlc-json",
                        level_text=_JT2[_p], level_note=JSON_NOTE, technique=JSON_TECH)
ENGINES[-1]["serves_properties"] += ["C03", "C04", "C20"]

VIEW_ASSUME = [
    "TLC enumerates spec/Views.tla exhaustively only up to the list length / key bounds and over the token alphabet recorded in the evidence",
    "callbacks are the free ones (call log, injective tag, order-sensitive fold): by parametricity they determine the behaviour for every callback",
    "numeric concretisations keep every operand and partial result exactly representable; inexact float sums are not judged (fold order is not fixed by C18)",
]
VIEW_NOTE = "Exhaustive over all lists/objects inside the bounds; values are tokens concretised by the harness (identity, power-of-two scaling, extreme monotone maps). Trusted: TLC, the harness's token-to-value maps."
VIEW_TECH = ("TLA+ operators for views/sort/folds (Views.tla) evaluated by TLC on every list/object inside the bounds (PartitionLaw/SortLaw/FoldLaw invariants); expected results "
             "replayed against the real methods; results recorded on lists of up to several thousand elements validated by TLC (ViewsTrace.tla)")
ENGINES.append({"name": "tlc-views", "path": "spec/Views.tla spec/ViewsTrace.tla bin/viewfam.py harness/cmd/vh/views.go", "serves_properties": ["C14", "C17", "C18"],
                "kind_free_text": "TLA+ definitions of the typed views, Sort/Reverse and the numeric folds, evaluated by TLC on every container inside the bounds; results compared with the real methods"})
_VT = {
    "C14": "Every list (<= bound, all kinds, duplicates) and object enumerated by TLC with the per-kind selection computed by the spec; every typed/untyped ForEach/Map/Filter/Reduce/slice/All method is run with free callbacks and compared (order, multiplicity, index, identity, result keys).",
    "C17": "Every homogeneous and mixed list inside the bounds with TLC's sorted permutation / reversal; Sort and Reverse run on lists built four ways (element storage shared with other lists) under three concretisations incl. extreme values, +-0 and equal-but-distinct containers.",
    "C18": "Every numeric and interleaved list inside the bounds with TLC's exact rational folds; compared exactly under identity, power-of-two scalings (int64 overflow, 2^53 boundary) and extreme monotone concretisations.",
}
for _p, _r in [("C14", viewfam.run_c14), ("C17", viewfam.run_c17), ("C18", viewfam.run_c18)]:
    REGISTRY[_p] = dict(run=_r, replay=doc_replay, level="model_checking", assumptions=VIEW_ASSUME, engine="tlc-views",
                        level_text=_VT[_p], level_note=VIEW_NOTE, technique=VIEW_TECH)

REGISTRY["C12"] = dict(run=viewfam.run_c12, replay=doc_replay, level="model_checking", engine="tlc-views",
                       assumptions=["TLC enumerates the finite table of (entry point, class, context) triples of spec/Convert.tla completely",
                                    "members of the wide integer classes (32/64 bit) and of float32 are boundaries plus seeded samples; 8/16-bit widths are exhaustive in the thorough tier",
                                    "numeric equality is judged by the harness with math/big and exact float32<->float64 round trips"],
                       level_text="Every (entry point x native class x nesting context) triple of the conversion table in Convert.tla is executed on the real API with the members of the class; TypeOf, dynamic Go type and value of Get, the typed-getter matrix, freshness of converted Go maps/slices, identity of stored containers and rejection of unsupported types are compared with the table.",
                       level_note="The class table is enumerated completely by TLC; the members of wide numeric classes are sampled. Trusted: TLC, math/big.",
                       technique="TLA+ conversion table (Convert.tla, NormalFormLaw) enumerated by TLC; every triple executed on the real entry points with exhaustive / sampled class members")
ENGINES[-1]["serves_properties"].append("C12")
ENGINES[-1]["path"] += " spec/Convert.tla harness/cmd/vh/convert.go"

REGISTRY["C15"] = dict(run=asyncfam.run_c15, replay=asyncfam.async_replay, level="model_checking", engine="tlc-async",
                       assumptions=["TLC explores Async.tla exhaustively for N <= 3 (quick) / 4 (thorough) workers; larger sizes only through recorded free-running executions",
                                    "schedule enforcement relies on the build-tagged verifGate hook and on blocking callbacks; a schedule the implementation cannot follow is counted as infeasible, never as a violation",
                                    "data races are those the Go race detector observes on the executed paths; GOMAXPROCS in {1,2,16} (free runs: 1,2,3,4,7,16)"],
                       level_text="The fork/join protocol is model-checked (safety, termination, refinement of the observable spec, four seeded protocol mistakes refuted); every observable interleaving for small N is enforced on the real goroutines in a race build, executions of sizes up to 257 are recorded and validated by TLC against AsyncObs, and all pairs/triples of read-only methods run concurrently on shared containers.",
                       level_note="Exhaustive over interleavings of observable events for N<=3/4; race freedom is checked dynamically on those executions. Trusted: TLC, the Go race detector, the gate mechanism.",
                       technique="TLA+ fork/join protocol (Async.tla) model-checked by TLC; TLC-enumerated schedules enforced on real goroutines (race build); recorded executions validated by TLC trace validation (AsyncTrace.tla)")
ENGINES.append({"name": "tlc-async", "path": "spec/Async.tla spec/AsyncObs.tla spec/AsyncTrace.tla bin/asyncfam.py harness/cmd/vh/async.go", "serves_properties": ["C15"],
                "kind_free_text": "TLA+ model of the WaitGroup/mutex protocol, checked by TLC; schedule enumeration + enforcement through gates; trace validation of recorded executions"})

PENDING = {}
