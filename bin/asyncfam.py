"""C15: spec/Async.tla (fork/join protocol) model-checked by TLC; every observable schedule enforced on the real
goroutines (race build); free-running executions validated against spec/AsyncObs.tla via spec/AsyncTrace.tla."""
import glob, json, os, re, shutil, subprocess, time
from vlib import *


def async_cfg(n, mode, bug, emit, props):
    return """CONSTANTS
 N = %d
 Mode = "%s"
 Bug = "%s"
 Emit = %s
SPECIFICATION Spec
INVARIANTS TypeOK ReturnAfterAll ExactlyOnce MapCorrect MutexInv CounterOK ObsOK
%s
CHECK_DEADLOCK FALSE
""" % (n, mode, bug, "TRUE" if emit else "FALSE", ("PROPERTIES " + " ".join(props)) if props else "")


def run_c15(prop, tier, seed, scratch):
    q = tier == "quick"
    cov = dict(states=0, transitions=0, traces_validated_against_impl=0, evaluations=0, distinct_nontrivial=0, configs=[], samples=[], exhaustive=True,
               spec_drift=[], negative_configs=[],
               rule="TLC model-checks the fork/join protocol of Async.tla (ReturnAfterAll, ExactlyOnce, MapCorrect, MutexInv, CounterOK, termination under weak "
                    "fairness, refinement of AsyncObs) and must refute the same invariants on four seeded protocol mistakes; with the history variable it "
                    "enumerates every interleaving of the observable events (callback entered / returned, call returned) for N up to the bound. Each schedule is "
                    "enforced on the real goroutines through blocking gates (verifGate hook + callbacks) for lists and objects, ForEachAsync and MapAsync, under "
                    "GOMAXPROCS 1/2/16, in a -race build: exactly-once with matching pairs, no return while a callback is pending, MapAsync == Map. "
                    "Free-running executions (sizes 0..257, GOMAXPROCS 1..16) are recorded and validated by TLC against AsyncObs; all pairs (thorough: triples) of "
                    "39 read-only methods run concurrently on shared untouched containers in 8 internal conditions. distinct_nontrivial = distinct enforced "
                    "(container, mode, schedule) + free-run configurations + reader combinations.",
               checker_cmd="tlc MC.tla (spec/Async.tla, spec/AsyncTrace.tla) ; vh-race async")
    violations = []
    mod = "---- MODULE MC ----\nEXTENDS Async\n====\n"
    sched_files = []
    maxn = 3 if q else 4
    for n in range(0, maxn + 1):
        for mode in ("ForEach", "Map"):
            name = "%s-%s-n%d" % (prop, mode, n)
            props = ["Termination", "RefinesObs"] if n <= 3 else []
            res = run_tlc(scratch, name, mod, async_cfg(n, mode, "none", True, props), ["Async.tla", "AsyncObs.tla"], 900)
            if not res["ok"]:
                raise Inconclusive("TLC found a problem in the protocol specification %s:\n%s" % (name, res["tail"][-3000:]))
            cov["states"] += res["states"]
            cov["transitions"] += res["transitions"]
            cov["configs"].append(dict(name=name, N=n, mode=mode, tlc_states=res["states"], tlc_transitions=res["transitions"],
                                       properties=["ReturnAfterAll", "ExactlyOnce", "MapCorrect", "MutexInv", "CounterOK", "ObsOK"] + props))
            sched_files.append(res["out_path"])
    log("[tlc] Async.tla: %d states, %d transitions over %d configs" % (cov["states"], cov["transitions"], len(sched_files)))
    # negative configs: the invariants are not vacuous
    for bug, inv in (("nowait", "ReturnAfterAll"), ("addinside", "ReturnAfterAll"), ("donefirst", "ReturnAfterAll"), ("capture", "ExactlyOnce")):
        name = "%s-neg-%s" % (prop, bug)
        res = run_tlc(scratch, name, mod, async_cfg(2, "ForEach", bug, False, []), ["Async.tla", "AsyncObs.tla"], 300)
        refuted = ("Invariant %s is violated" % inv) in res["tail"]
        cov["negative_configs"].append(dict(bug=bug, expected_violation=inv, refuted=refuted))
        if not refuted:
            raise Inconclusive("negative config %s: TLC did not refute %s (the property would be vacuous)" % (bug, inv))
    # enforce the schedules on the real code, race build
    vh = build_harness(scratch, race=True)
    out = scratch.path("async.json")
    trace = scratch.path("async-trace.ndjson")
    racelog = scratch.path("race")
    env = dict(os.environ, GORACE="halt_on_error=0 log_path=%s" % racelog)
    args = [vh, "async", "-in", ",".join(sched_files), "-prop", prop, "-seed", str(seed), "-grace", "2" if q else "20", "-trace", trace,
            "-free", "180" if q else "1800", "-reps", "2" if q else "6", "-out", out, "-replaydir", scratch.sub("replays")]
    if not q:
        args.append("-triples")
    t0 = time.time()
    try:
        p = subprocess.run(args, capture_output=True, text=True, timeout=3000, env=env)
    except subprocess.TimeoutExpired:
        raise Inconclusive("async harness timed out")
    races = []
    for f in glob.glob(racelog + "*"):
        txt = open(f, errors="replace").read()
        for block in txt.split("=================="):
            if "DATA RACE" in block:
                races.append(block.strip())
    if p.returncode not in (0, 1, 66) and not races:
        raise Inconclusive("async harness failed (rc=%d):\n%s" % (p.returncode, (p.stdout + p.stderr)[-3000:]))
    s = json.load(open(out)) if os.path.exists(out) else dict(evaluations=0, distinct=0, violations=[], samples=[])
    log("[async] %s schedules enforced (%s infeasible), %s free runs, %s reader combinations, %d race reports, %.1fs"
        % (s.get("schedules_enforced"), s.get("schedules_infeasible"), s.get("free_runs"), s.get("reader_combinations"), len(races), time.time() - t0))
    violations += s.get("violations") or []
    # a report belongs to the library when one of its stacks has a frame inside the anytype package
    lib_races = [r for r in races if "github.com/DanielSvub/anytype." in r]
    harness_races = [r for r in races if "github.com/DanielSvub/anytype." not in r]
    if harness_races and not lib_races:
        raise Inconclusive("the race detector reports a race inside the harness only:\n" + harness_races[0][:3000])
    for r in lib_races[:3]:
        m = re.findall(r"github.com/DanielSvub/anytype\.[^\n]*", r)
        violations.append(dict(property=prop, check="race", sig="race: " + " / ".join(sorted(set(m))[:4]),
                               message="data race in the library's own memory accesses (Go race detector):\n" + r[:4000]))
    cov["evaluations"] = s.get("evaluations", 0)
    cov["distinct_nontrivial"] = s.get("distinct", 0)
    cov["samples"] = (s.get("samples") or [])[:4]
    for k in ("schedules_enforced", "schedules_infeasible", "free_runs", "reader_combinations"):
        cov[k] = s.get(k)
    cov["race_reports"] = len(races)
    cov["traces_validated_against_impl"] = int(s.get("schedules_enforced") or 0)
    # R3: the recorded free-running executions are behaviours of AsyncObs
    if os.path.exists(trace) and os.path.getsize(trace) > 0 and not violations:
        with open(trace, "a") as tf:
            tf.write('{"e":"reset","i":0}\n')   # sentinel: consumable only if the last recorded call has returned
        nlines = sum(1 for _ in open(trace))
        tmod = "---- MODULE MC ----\nEXTENDS AsyncTrace\n====\n"
        tcfg = 'CONSTANTS\n N = 0\n TraceFile = "%s"\nSPECIFICATION TraceSpec\nINVARIANT TraceInv\nCONSTRAINT Mark\nPOSTCONDITION TraceAccepted\nCHECK_DEADLOCK FALSE\n' % trace
        res = run_tlc(scratch, prop + "-trace", tmod, tcfg, ["AsyncTrace.tla", "AsyncObs.tla"], 900, workers=1)
        cov["states"] += res.get("states", 0)
        cov["transitions"] += res.get("transitions", 0)
        cov["trace_events"] = nlines
        if res["ok"]:
            cov["traces_validated_against_impl"] += int(s.get("free_runs") or 0)
            log("[trace] %d recorded events of %s free runs accepted by TLC (AsyncTrace.tla), %.1fs" % (nlines, s.get("free_runs"), res["wall_s"]))
        else:
            # find the first unexplained event
            m = re.search(r"TLCGet\(1\)|Postcondition|is violated|violated", res["tail"])
            keep = os.path.join(REPLAYS, "%s-trace-%d.ndjson" % (prop, int(time.time())))
            os.makedirs(REPLAYS, exist_ok=True)
            shutil.copy(trace, keep)
            violations.append(dict(property=prop, check="trace", sig="trace: recorded execution rejected by AsyncTrace.tla",
                                   message="a recorded execution of the async methods is not a behaviour of AsyncObs (TLC rejects the trace %s):\n%s" % (keep, res["tail"][-1500:])))
    return cov, violations


def async_replay(prop, path, scratch):
    print("C15 replay files describe a schedule / reader combination; re-run `bin/check C15` (schedules are enforced deterministically).")
    print(open(path).read()[:2000])
    return 2
