package heapx

import (
	"fmt"
	"reflect"
	"sort"
	"sync/atomic"

	at "github.com/DanielSvub/anytype"

	"verif/harness/model"
)

// ObsCfg selects the observers run in a visited state.
type ObsCfg struct {
	Getters bool // Empty, out-of-range Get/TypeOf, typed getter matrix, Slice/typed slices, Keys/Values/Dict
	Equals  bool // Equals over all ordered pairs (obs.eq)
	Index   bool // IndexOf/Contains/KeyOf (obs.io, obs.ko)
	TF      bool // tree-form read table (obs.tf) over all paths up to TFLen
	TFLen   int
	MaxLen  int
	Strings bool // String()/ParseX round trip sanity
	Malform bool // malformed tree-form strings
}

func typedGetL(l at.List, i int, k string) (v any, p any) {
	p = safe(func() {
		switch k {
		case "O":
			v = l.GetObject(i)
		case "L":
			v = l.GetList(i)
		case "str":
			v = l.GetString(i)
		case "bool":
			v = l.GetBool(i)
		case "int":
			v = l.GetInt(i)
		case "float":
			v = l.GetFloat(i)
		}
	})
	return
}

func typedGetO(o at.Object, key string, k string) (v any, p any) {
	p = safe(func() {
		switch k {
		case "O":
			v = o.GetObject(key)
		case "L":
			v = o.GetList(key)
		case "str":
			v = o.GetString(key)
		case "bool":
			v = o.GetBool(key)
		case "int":
			v = o.GetInt(key)
		case "float":
			v = o.GetFloat(key)
		}
	})
	return
}

var getterKinds = []string{"O", "L", "str", "bool", "int", "float"}

func slotKind(h model.Heap, v model.Val) string {
	if v.K == "ref" {
		return h[v.V-1].T
	}
	return v.K
}

// expectGo is the Go value the model expects for value v (bound container or scalar).
func (r *Real) expectGo(v model.Val) any {
	if v.K == "ref" {
		return r.Fwd[v.V]
	}
	return r.T.Go(v)
}

func anyEq(a, b any) bool {
	if a == nil || b == nil {
		return a == nil && b == nil
	}
	if reflect.TypeOf(a) != reflect.TypeOf(b) {
		return false
	}
	if !reflect.TypeOf(a).Comparable() {
		return false
	}
	return a == b
}

func (r *Real) observeList(h model.Heap, id int, cfg ObsCfg) *Mismatch {
	l := r.list(id)
	e := h[id-1].E
	n := len(e)
	if l.Empty() != (n == 0) {
		return mis("List #%d: Empty() = %v with %d elements", id, l.Empty(), n)
	}
	for _, i := range []int{-2, -1, n, n + 1} {
		if safe(func() { l.Get(i) }) == nil {
			return mis("List #%d: Get(%d) did not panic (count %d)", id, i, n)
		}
		var t at.Type
		if p := safe(func() { t = l.TypeOf(i) }); p != nil || t != at.TypeUndefined {
			return mis("List #%d: TypeOf(%d) = %d / panic %v, want TypeUndefined (count %d)", id, i, t, p, n)
		}
		for _, k := range getterKinds {
			if _, p := typedGetL(l, i, k); p == nil {
				return mis("List #%d: typed getter %s(%d) did not panic (count %d)", id, k, i, n)
			}
		}
	}
	for i, v := range e {
		sk := slotKind(h, v)
		for _, k := range getterKinds {
			got, p := typedGetL(l, i, k)
			if k == sk {
				if p != nil {
					return mis("List #%d: typed getter %s(%d) panicked (%v) on a %s element", id, k, i, p, v)
				}
				if !anyEq(got, r.expectGo(v)) {
					return mis("List #%d: typed getter %s(%d) = %#v, want %s", id, k, i, got, v)
				}
			} else if p == nil {
				return mis("List #%d: typed getter %s(%d) succeeded on a %s element", id, k, i, v)
			}
		}
	}
	// Slice and typed slices
	s := l.Slice()
	if len(s) != n {
		return mis("List #%d: Slice() has %d elements, want %d", id, len(s), n)
	}
	for i, v := range e {
		if !anyEq(s[i], r.expectGo(v)) {
			return mis("List #%d: Slice()[%d] = %#v, want %s", id, i, s[i], v)
		}
	}
	var wo, wl, ws, wb, wi, wf []any
	for _, v := range e {
		g := r.expectGo(v)
		switch slotKind(h, v) {
		case "O":
			wo = append(wo, g)
		case "L":
			wl = append(wl, g)
		case "str":
			ws = append(ws, g)
		case "bool":
			wb = append(wb, g)
		case "int":
			wi = append(wi, g)
		case "float":
			wf = append(wf, g)
		}
	}
	cmp := func(name string, got []any, want []any) *Mismatch {
		if len(got) != len(want) {
			return mis("List #%d: %s has %d elements, want %d (%v vs %v)", id, name, len(got), len(want), got, want)
		}
		for i := range got {
			if !anyEq(got[i], want[i]) {
				return mis("List #%d: %s[%d] = %#v, want %#v", id, name, i, got[i], want[i])
			}
		}
		return nil
	}
	toAny := func(x any) []any {
		rv := reflect.ValueOf(x)
		out := make([]any, rv.Len())
		for i := range out {
			out[i] = rv.Index(i).Interface()
		}
		return out
	}
	for _, c := range []struct {
		name string
		got  any
		want []any
	}{{"ObjectSlice", l.ObjectSlice(), wo}, {"ListSlice", l.ListSlice(), wl}, {"StringSlice", l.StringSlice(), ws},
		{"BoolSlice", l.BoolSlice(), wb}, {"IntSlice", l.IntSlice(), wi}, {"FloatSlice", l.FloatSlice(), wf}} {
		if m := cmp(c.name, toAny(c.got), c.want); m != nil {
			return m
		}
	}
	r.Calls += 20 + 8*n
	return nil
}

func (r *Real) observeObject(h model.Heap, id int, cfg ObsCfg) *Mismatch {
	o := r.object(id)
	e := h[id-1].E
	present := map[string]model.Val{}
	for k, v := range e {
		key := r.T.Str(k + 1)
		sk := slotKind(h, v)
		if v.K == "absent" {
			if safe(func() { o.Get(key) }) == nil {
				return mis("Object #%d: Get(%q) did not panic on a missing key", id, key)
			}
			sk = "none"
		} else {
			present[key] = v
		}
		for _, gk := range getterKinds {
			got, p := typedGetO(o, key, gk)
			if gk == sk {
				if p != nil {
					return mis("Object #%d: typed getter %s(%q) panicked (%v) on %s", id, gk, key, p, v)
				}
				if !anyEq(got, r.expectGo(v)) {
					return mis("Object #%d: typed getter %s(%q) = %#v, want %s", id, gk, key, got, v)
				}
			} else if p == nil {
				return mis("Object #%d: typed getter %s(%q) succeeded on %s", id, gk, key, v)
			}
		}
	}
	// a key that is no token at all
	if o.KeyExists("\x01no-such-key") || o.TypeOf("\x01no-such-key") != at.TypeUndefined || safe(func() { o.Get("\x01no-such-key") }) == nil {
		return mis("Object #%d: a never-set key is reported as present", id)
	}
	if o.Empty() != (len(present) == 0) {
		return mis("Object #%d: Empty() = %v with %d fields", id, o.Empty(), len(present))
	}
	keys := o.Keys()
	if keys.Count() != len(present) {
		return mis("Object #%d: Keys() has %d entries, object has %d fields (%s)", id, keys.Count(), len(present), keys.String())
	}
	seen := map[string]bool{}
	for i := 0; i < keys.Count(); i++ {
		k, ok := keys.Get(i).(string)
		if !ok || seen[k] {
			return mis("Object #%d: Keys() = %s has a non-string or duplicate entry", id, keys.String())
		}
		if _, ok := present[k]; !ok {
			return mis("Object #%d: Keys() lists %q which is not a field", id, k)
		}
		seen[k] = true
	}
	vals := o.Values()
	if vals.Count() != len(present) {
		return mis("Object #%d: Values() has %d entries, object has %d fields", id, vals.Count(), len(present))
	}
	used := map[string]bool{}
	for i := 0; i < vals.Count(); i++ {
		got := vals.Get(i)
		found := false
		for k, v := range present {
			if !used[k] && anyEq(got, r.expectGo(v)) {
				used[k] = true
				found = true
				break
			}
		}
		if !found {
			return mis("Object #%d: Values() entry %#v does not match a remaining field value", id, got)
		}
	}
	d := o.Dict()
	if len(d) != len(present) {
		return mis("Object #%d: Dict() has %d entries, object has %d fields", id, len(d), len(present))
	}
	for k, v := range present {
		got, ok := d[k]
		if !ok || !anyEq(got, r.expectGo(v)) {
			return mis("Object #%d: Dict()[%q] = %#v (present %v), want %s", id, k, got, ok, v)
		}
	}
	r.Calls += 10 + 8*len(e)
	return nil
}

func (r *Real) allReadPaths(cfg ObsCfg) [][]model.Val {
	var segs []model.Val
	for k := 1; k <= r.NKeys; k++ {
		segs = append(segs, model.Val{K: "key", V: k})
	}
	for i := 0; i <= cfg.MaxLen; i++ {
		segs = append(segs, model.Val{K: "idx", V: i})
	}
	var out [][]model.Val
	cur := [][]model.Val{{}}
	for n := 1; n <= cfg.TFLen; n++ {
		var nxt [][]model.Val
		for _, p := range cur {
			for _, s := range segs {
				q := append(append([]model.Val(nil), p...), s)
				nxt = append(nxt, q)
			}
		}
		out = append(out, nxt...)
		cur = nxt
	}
	return out
}

func (r *Real) tfCalls(c any, path string) (t at.Type, tp any, v any, gp any) {
	switch x := c.(type) {
	case at.List:
		tp = safe(func() { t = x.TypeOfTF(path) })
		gp = safe(func() { v = x.GetTF(path) })
	case at.Object:
		tp = safe(func() { t = x.TypeOfTF(path) })
		gp = safe(func() { v = x.GetTF(path) })
	}
	r.Calls += 2
	return
}

func (r *Real) expectType(h model.Heap, v model.Val) at.Type {
	if v.K == "ref" {
		if h[v.V-1].T == "O" {
			return at.TypeObject
		}
		return at.TypeList
	}
	return kindType[v.K]
}

// Malformed tree-form strings: TypeOfTF must be Undefined without panic, GetTF must panic.
var malformed = []string{"", ".", "#", "..", "##", ".#", "#.", "a", "0", "x.y", ".a.", ".a#", "#0.", "#0#", "#x", "#", "# 0", "#0x", ".a..b", ".a.#0", "#0##1", "#-", "#1e3", "#99999999999999999999999", "#18446744073709551616", "#18446744073709551617", "#18446744073709551616.a", "#36893488147419103232#0"}

var fixedTreeDone int32

// fixedTreeTF: corruptions of resolvable paths on a tree that also has fields with the empty key (the corrupted
// path must not fall back to them). Run once per process.
func fixedTreeTF() *Mismatch {
	if !atomic.CompareAndSwapInt32(&fixedTreeDone, 0, 1) {
		return nil
	}
	inner := at.NewObject("", 2, "b", 3)
	l := at.NewList(at.NewObject("", 4, "k", 5), at.NewList(6))
	root := at.NewObject("", 1, "a", inner, "l", l)
	lroot := at.NewList(root, l)
	for _, c := range []struct {
		name string
		tof  func(string) at.Type
		get  func(string) any
		ps   []string
	}{
		{"object", root.TypeOfTF, root.GetTF, []string{".", "..", ".a.", ".a..", ".l#0.", ".l#", ".l#0..", "..a", ".a.b.", ".#", ".a#", ".l.#0"}},
		{"list", lroot.TypeOfTF, lroot.GetTF, []string{"#0.", "#0..", "#0.a.", "#0.l#0.", "#", "#0#", "#1#0.", "#0.l#1#0#"}},
	} {
		for _, p := range c.ps {
			var t at.Type
			if e := safe(func() { t = c.tof(p) }); e != nil {
				return mis("fixed tree with empty-string keys (%s root): TypeOfTF(%q) panicked: %v", c.name, p, e)
			}
			var v any
			gp := safe(func() { v = c.get(p) })
			if t != at.TypeUndefined || gp == nil {
				return mis("fixed tree with empty-string keys (%s root): the corrupted path %q resolves (TypeOfTF = %d, GetTF = %#v); it must be Undefined / panic", c.name, p, t, v)
			}
		}
	}
	if root.GetTF(".a.b") != 3 || lroot.GetTF("#0.l#0.k") != 5 || root.TypeOfTF(".l#1#0") != at.TypeInt {
		return mis("fixed tree: resolvable paths no longer resolve")
	}
	return nil
}

func (r *Real) observeTF(st *model.State, cfg ObsCfg) *Mismatch {
	if cfg.Malform {
		if m := fixedTreeTF(); m != nil {
			return m
		}
	}
	h := st.Heap
	table := map[string]model.Val{}
	for _, e := range st.Obs.Tf {
		table[fmt.Sprintf("%d|%s", e.R, r.PathString(e.P))] = e.V
	}
	paths := r.allReadPaths(cfg)
	for id, cell := range h {
		id := id + 1
		if cell.T != "L" && cell.T != "O" {
			continue
		}
		c, ok := r.Fwd[id]
		if !ok {
			continue
		}
		for _, p := range paths {
			ps := r.PathString(p)
			exp, resolvable := table[fmt.Sprintf("%d|%s", id, ps)]
			t, tp, v, gp := r.tfCalls(c, ps)
			if tp != nil {
				return mis("#%d: TypeOfTF(%q) panicked: %v", id, ps, tp)
			}
			if !resolvable {
				if t != at.TypeUndefined {
					return mis("#%d: TypeOfTF(%q) = %d, the path does not resolve in the model", id, ps, t)
				}
				if gp == nil {
					return mis("#%d: GetTF(%q) = %#v, the path does not resolve in the model (must panic)", id, ps, v)
				}
				continue
			}
			if t != r.expectType(h, exp) {
				return mis("#%d: TypeOfTF(%q) = %d, model resolves to %s", id, ps, t, exp)
			}
			if gp != nil {
				return mis("#%d: GetTF(%q) panicked (%v), model resolves to %s", id, ps, gp, exp)
			}
			if !anyEq(v, r.expectGo(exp)) {
				return mis("#%d: GetTF(%q) = %#v, model resolves to %s", id, ps, v, exp)
			}
		}
		if cfg.Malform {
			for _, ps := range malformed {
				t, tp, v, gp := r.tfCalls(c, ps)
				if tp != nil {
					return mis("#%d: TypeOfTF(%q) panicked: %v", id, ps, tp)
				}
				if t != at.TypeUndefined || gp == nil {
					return mis("#%d: malformed path %q: TypeOfTF = %d, GetTF = %#v (panic %v)", id, ps, t, v, gp)
				}
			}
		}
	}
	return nil
}

// Observe runs the configured observers in the current state; the heap must be unchanged by them
// (checked by the caller through a second Compare).
func (r *Real) Observe(st *model.State, cfg ObsCfg) *Mismatch {
	h := st.Heap
	ids := make([]int, 0, len(r.Fwd))
	for id := range r.Fwd {
		if id <= len(h) {
			ids = append(ids, id)
		}
	}
	sort.Ints(ids)
	if cfg.Getters {
		for _, id := range ids {
			switch h[id-1].T {
			case "L":
				if m := r.observeList(h, id, cfg); m != nil {
					return m
				}
			case "O":
				if m := r.observeObject(h, id, cfg); m != nil {
					return m
				}
			}
		}
	}
	if cfg.Equals {
		eq := map[[2]int]bool{}
		for _, p := range st.Obs.Eq {
			eq[p] = true
			eq[[2]int{p[1], p[0]}] = true
		}
		// distinct pairs first (in an order that varies between visits), reflexive pairs last: an implementation
		// that remembers its last comparison must not be refreshed by x.Equals(x) before the interesting call
		type pair struct{ a, b int }
		var pairs []pair
		for _, a := range ids {
			for _, b := range ids {
				if a != b {
					pairs = append(pairs, pair{a, b})
				}
			}
		}
		if r.Calls%2 == 1 {
			for i, j := 0, len(pairs)-1; i < j; i, j = i+1, j-1 {
				pairs[i], pairs[j] = pairs[j], pairs[i]
			}
		}
		nd := len(pairs)
		for _, a := range ids {
			pairs = append(pairs, pair{a, a})
		}
		// ... and the distinct pairs once more, so that a visit both starts and ends with them
		pairs = append(pairs, pairs[:nd]...)
		for _, pr := range pairs {
			a, b := pr.a, pr.b
			{
				ta, tb := h[a-1].T, h[b-1].T
				if ta != tb || (ta != "L" && ta != "O") {
					continue
				}
				want := a == b || eq[[2]int{a, b}]
				var got bool
				var p any
				if ta == "L" {
					other := r.Inner(r.list(b)).(at.List)
					p = safe(func() { got = r.list(a).Equals(other) })
				} else {
					other := r.Inner(r.object(b)).(at.Object)
					p = safe(func() { got = r.object(a).Equals(other) })
				}
				r.Calls++
				if p != nil {
					return mis("Equals(#%d, #%d) panicked: %v", a, b, p)
				}
				if got != want {
					return mis("Equals(#%d, #%d) = %v, model says %v (%s vs %s)", a, b, got, want, safeString(r.Fwd[a]), safeString(r.Fwd[b]))
				}
			}
		}
	}
	if cfg.Index {
		for _, e := range st.Obs.Io {
			if _, ok := r.Fwd[e.R]; !ok {
				continue
			}
			if e.V.K == "ref" {
				if _, ok := r.Fwd[e.V.V]; !ok {
					continue
				}
			}
			l := r.list(e.R)
			v := r.expectGo(e.V)
			r.Calls += 2
			if got := l.IndexOf(v); got != e.I {
				return mis("List #%d: IndexOf(%s) = %d, model says %d (%s)", e.R, e.V, got, e.I, safeString(l))
			}
			if got := l.Contains(v); got != (e.I >= 0) {
				return mis("List #%d: Contains(%s) = %v, model says %v", e.R, e.V, got, e.I >= 0)
			}
		}
		for _, e := range st.Obs.Ko {
			if _, ok := r.Fwd[e.R]; !ok {
				continue
			}
			if e.V.K == "ref" {
				if _, ok := r.Fwd[e.V.V]; !ok {
					continue
				}
			}
			o := r.object(e.R)
			v := r.expectGo(e.V)
			r.Calls += 2
			if got := o.Contains(v); got != (len(e.Ks) > 0) {
				return mis("Object #%d: Contains(%s) = %v, model says %v", e.R, e.V, got, len(e.Ks) > 0)
			}
			var key string
			p := safe(func() { key = o.KeyOf(v) })
			if len(e.Ks) == 0 {
				if p == nil {
					return mis("Object #%d: KeyOf(%s) = %q, model says no such value (must panic)", e.R, e.V, key)
				}
			} else {
				ok := false
				for _, k := range e.Ks {
					if r.T.Str(k) == key {
						ok = true
					}
				}
				if p != nil || !ok {
					return mis("Object #%d: KeyOf(%s) = %q (panic %v), model allows keys %v", e.R, e.V, key, p, e.Ks)
				}
			}
		}
	}
	if cfg.TF && cfg.TFLen > 0 {
		if m := r.observeTF(st, cfg); m != nil {
			return m
		}
	}
	if cfg.Strings && r.Derived == 0 {
		for _, id := range ids {
			switch h[id-1].T {
			case "L":
				l := r.list(id)
				back, err := at.ParseList(l.String())
				r.Calls += 3
				if err != nil || !l.Equals(back) || !back.Equals(l) {
					return mis("List #%d: ParseList(String()) err=%v or not Equals (%s)", id, err, l.String())
				}
			case "O":
				o := r.object(id)
				back, err := at.ParseObject(o.String())
				r.Calls += 3
				if err != nil || !o.Equals(back) || !back.Equals(o) {
					return mis("Object #%d: ParseObject(String()) err=%v or not Equals (%s)", id, err, o.String())
				}
			}
		}
	}
	return nil
}
