// Package heapx executes abstract operations (spec/Heap.tla) on the real anytype library and
// compares the real heap with an abstract heap through a bidirectional binding
// model reference id <-> real container (heap isomorphism).
package heapx

import (
	"fmt"
	"reflect"
	"sort"
	"strconv"
	"strings"

	at "github.com/DanielSvub/anytype"

	"verif/harness/conc"
	"verif/harness/model"
)

// Derived user types (C19): one and two embedding levels.
type DL struct{ at.List }
type DL2 struct{ *DL }
type DO struct{ at.Object }
type DO2 struct{ *DO }

// GoSlice / GoMap are Go values held by the harness (cells "GS"/"GM").
type GoSlice struct{ S []any }
type GoMap struct{ M map[string]any }

// Real is the real-side state of one replay.
type Real struct {
	T       *conc.Table
	Lits    []model.Cell
	Derived int // 0: plain containers, 1 / 2: every container handed to the harness is wrapped in a derived struct
	Fwd     map[int]any
	Rev     map[any]int
	inner   map[any]any // derived wrapper -> the container it embeds
	NKeys   int
	Calls   int // API calls made (evidence)
}

func New(t *conc.Table, lits []model.Cell, nkeys, derived int) *Real {
	return &Real{T: t, Lits: lits, Derived: derived, Fwd: map[int]any{}, Rev: map[any]int{}, inner: map[any]any{}, NKeys: nkeys}
}

func (r *Real) wrapL(l at.List) at.List {
	switch r.Derived {
	case 1:
		d := &DL{List: l}
		d.Init(d)
		r.inner[at.List(d)] = l
		return d
	case 2:
		// as in the library's README: every embedding level registers itself in turn
		mid := &DL{List: l}
		mid.Init(mid)
		d := &DL2{mid}
		d.Init(d)
		r.inner[at.List(d)] = l
		return d
	}
	return l
}

func (r *Real) wrapO(o at.Object) at.Object {
	switch r.Derived {
	case 1:
		d := &DO{Object: o}
		d.Init(d)
		r.inner[at.Object(d)] = o
		return d
	case 2:
		mid := &DO{Object: o}
		mid.Init(mid)
		d := &DO2{mid}
		d.Init(d)
		r.inner[at.Object(d)] = o
		return d
	}
	return o
}

// Inner returns the embedded container of a derived wrapper (or the value itself).
func (r *Real) Inner(x any) any {
	if in, ok := r.inner[x]; ok {
		return in
	}
	return x
}

func (r *Real) bind(id int, x any) {
	r.Fwd[id] = x
	r.Rev[x] = id
}

func (r *Real) list(id int) at.List     { return r.Fwd[id].(at.List) }
func (r *Real) object(id int) at.Object { return r.Fwd[id].(at.Object) }

// lit builds a fresh Go literal from a literal cell.
func (r *Real) lit(i int) any {
	c := r.Lits[i-1]
	if c.T == "L" {
		s := make([]any, 0, len(c.E))
		for _, v := range c.E {
			s = append(s, r.T.Go(v))
		}
		return s
	}
	m := map[string]any{}
	for k, v := range c.E {
		if v.K != "absent" {
			m[r.T.Str(k+1)] = r.T.Go(v)
		}
	}
	return m
}

// arg converts an abstract argument value to the Go value passed to the library.
func (r *Real) arg(v model.Val) any {
	switch v.K {
	case "ref":
		x, ok := r.Fwd[v.V]
		if !ok {
			panic(fmt.Sprintf("harness: argument ref %d is unbound", v.V))
		}
		switch g := x.(type) {
		case *GoSlice:
			return g.S
		case *GoMap:
			return g.M
		}
		return x
	case "lit":
		return r.lit(v.V)
	}
	return r.T.Go(v)
}

func (r *Real) args(vs []model.Val) []any {
	out := make([]any, len(vs))
	for i, v := range vs {
		out[i] = r.arg(v)
	}
	return out
}

// PathString renders a tree-form path.
func (r *Real) PathString(p []model.Val) string {
	var b strings.Builder
	for _, s := range p {
		if s.K == "key" {
			b.WriteByte('.')
			b.WriteString(r.T.Str(s.V))
		} else {
			b.WriteByte('#')
			b.WriteString(strconv.Itoa(s.V))
		}
	}
	return b.String()
}

// Executable reports whether every container the operation names is known to the harness.
func (r *Real) Executable(o model.Op) bool {
	if o.R > 0 {
		if _, ok := r.Fwd[o.R]; !ok {
			return false
		}
	}
	if o.Op == "Concat" || o.Op == "Merge" {
		if _, ok := r.Fwd[o.J]; !ok {
			return false
		}
	}
	if o.V.K == "ref" {
		if _, ok := r.Fwd[o.V.V]; !ok {
			return false
		}
	}
	for _, v := range o.Vs {
		if v.K == "ref" {
			if _, ok := r.Fwd[v.V]; !ok {
				return false
			}
		}
	}
	return true
}

var churnSeq int

// Exec runs one operation on the real library. ret is the returned Go value (wrapped in a
// derived struct when the run is in derived mode and the value is a fresh container).
func (r *Real) Exec(o model.Op) (panicked bool, ret any, pmsg any) {
	defer func() {
		if e := recover(); e != nil {
			if s, ok := e.(string); ok && strings.HasPrefix(s, "harness:") {
				panic(e)
			}
			panicked, ret, pmsg = true, nil, e
		}
	}()
	r.Calls++
	switch o.Op {
	case "NewList":
		return false, r.wrapL(at.NewList(r.args(o.Vs)...)), nil
	case "NewListOf":
		return false, r.wrapL(at.NewListOf(r.arg(o.V), o.I)), nil
	case "NewObject":
		return false, r.wrapO(at.NewObject(r.args(o.Vs)...)), nil
	case "NewGoSlice":
		return false, &GoSlice{S: r.args(o.Vs)}, nil
	case "NewGoMap":
		m := map[string]any{}
		for i := 0; i+1 < len(o.Vs); i += 2 {
			m[r.T.Str(o.Vs[i].V)] = r.arg(o.Vs[i+1])
		}
		return false, &GoMap{M: m}, nil
	case "NewListFrom":
		return false, r.wrapL(at.NewListFrom(r.Fwd[o.R].(*GoSlice).S)), nil
	case "NewObjectFrom":
		return false, r.wrapO(at.NewObjectFrom(r.Fwd[o.R].(*GoMap).M)), nil
	case "GoSet":
		switch g := r.Fwd[o.R].(type) {
		case *GoSlice:
			g.S[o.I] = r.arg(o.V)
		case *GoMap:
			g.M[r.T.Str(o.I)] = r.arg(o.V)
		}
		return false, nil, nil
	case "GoAppend":
		g := r.Fwd[o.R].(*GoSlice)
		g.S = append(g.S, r.arg(o.V))
		return false, nil, nil
	case "GoDelete":
		delete(r.Fwd[o.R].(*GoMap).M, r.T.Str(o.I))
		return false, nil, nil
	}
	switch o.Op {
	case "Churn":
		// thousands of distinct short strings, keys, numbers and small containers, all dropped again
		churnSeq++
		l := at.NewList()
		ob := at.NewObject()
		for i := 0; i < 5000; i++ {
			s := fmt.Sprintf("c%d-%d", churnSeq, i)
			l.Add(s, i*7919+churnSeq, float64(i)+0.25)
			ob.Set(s, s)
			if i%50 == 0 {
				l.Add(at.NewList(s), at.NewObject(s, i))
			}
		}
		_ = l.String()
		l.Clone().Equals(l)
		ob.Clone().Equals(ob)
		return false, nil, nil
	case "Text":
		switch a := r.Fwd[o.R].(type) {
		case at.List:
			_ = a.String()
			a.FormatString(2)
			a.FormatString(0)
		case at.Object:
			_ = a.String()
			a.FormatString(2)
			a.FormatString(0)
		}
		return false, nil, nil
	case "IndexOf":
		return false, r.Fwd[o.R].(at.List).IndexOf(r.arg(o.V)), nil
	case "Contains":
		switch a := r.Fwd[o.R].(type) {
		case at.List:
			return false, a.Contains(r.arg(o.V)), nil
		case at.Object:
			return false, a.Contains(r.arg(o.V)), nil
		}
	case "KeyOf":
		return false, r.Fwd[o.R].(at.Object).KeyOf(r.arg(o.V)), nil
	case "Equals":
		switch a := r.Fwd[o.R].(type) {
		case at.List:
			return false, a.Equals(r.Inner(r.list(o.J)).(at.List)), nil
		case at.Object:
			return false, a.Equals(r.Inner(r.object(o.J)).(at.Object)), nil
		}
	case "ForEach":
		// the callbacks do nothing but read the receiver again (re-entrant reads are legal)
		switch a := r.Fwd[o.R].(type) {
		case at.List:
			if o.I < 8 {
				n := 0
				a.ForEachValue(func(any) {
					if n < 3 {
						n++
						a.Count()
						a.Empty()
						a.ForEachValue(func(any) {})
						a.Slice()
					}
				})
			}
			switch o.I {
			case 0:
				return false, a.ForEach(func(int, any) {}), nil
			case 1:
				return false, a.ForEachValue(func(any) {}), nil
			case 2:
				return false, a.ForEachObject(func(at.Object) {}), nil
			case 3:
				return false, a.ForEachList(func(at.List) {}), nil
			case 4:
				return false, a.ForEachString(func(string) {}), nil
			case 5:
				return false, a.ForEachBool(func(bool) {}), nil
			case 6:
				return false, a.ForEachInt(func(int) {}), nil
			case 7:
				return false, a.ForEachFloat(func(float64) {}), nil
			default:
				return false, a.ForEachAsync(func(int, any) {}), nil
			}
		case at.Object:
			switch o.I {
			case 0:
				return false, a.ForEach(func(string, any) {}), nil
			case 1:
				return false, a.ForEachValue(func(any) {}), nil
			case 2:
				return false, a.ForEachObject(func(at.Object) {}), nil
			case 3:
				return false, a.ForEachList(func(at.List) {}), nil
			case 4:
				return false, a.ForEachString(func(string) {}), nil
			case 5:
				return false, a.ForEachBool(func(bool) {}), nil
			case 6:
				return false, a.ForEachInt(func(int) {}), nil
			case 7:
				return false, a.ForEachFloat(func(float64) {}), nil
			default:
				return false, a.ForEachAsync(func(string, any) {}), nil
			}
		}
	case "NativeCheck":
		switch a := r.Fwd[o.R].(type) {
		case at.List:
			return false, nativeMatches(a.NativeSlice(), a), nil
		case at.Object:
			return false, nativeMatches(a.NativeDict(), a), nil
		}
	}
	// list receiver
	switch o.Op {
	case "Add", "Insert", "Replace", "Delete", "Pop", "Clear", "Reverse", "Sort", "SortAny", "SubList", "Concat",
		"Clone", "Slice", "NativeSlice", "FilterAll", "FilterHead", "MapId":
		l := r.list(o.R)
		switch o.Op {
		case "Add":
			return false, l.Add(r.args(o.Vs)...), nil
		case "Insert":
			return false, l.Insert(o.I, r.arg(o.V)), nil
		case "Replace":
			return false, l.Replace(o.I, r.arg(o.V)), nil
		case "Delete":
			return false, l.Delete(append([]int(nil), o.Ks...)...), nil
		case "Pop":
			return false, l.Pop(), nil
		case "Clear":
			return false, l.Clear(), nil
		case "Reverse":
			return false, l.Reverse(), nil
		case "Sort", "SortAny":
			return false, l.Sort(), nil
		case "SubList":
			return false, r.wrapL(l.SubList(o.I, o.J)), nil
		case "Concat":
			other := r.Inner(r.list(o.J)).(at.List)
			return false, r.wrapL(l.Concat(other)), nil
		case "Clone":
			return false, r.wrapL(l.Clone()), nil
		case "Slice":
			return false, &GoSlice{S: l.Slice()}, nil
		case "NativeSlice":
			return false, &GoSlice{S: l.NativeSlice()}, nil
		case "FilterAll":
			return false, r.wrapL(l.Filter(func(any) bool { return true })), nil
		case "FilterHead":
			calls := 0
			return false, r.wrapL(l.Filter(func(any) bool { calls++; return calls <= o.I })), nil
		case "MapId":
			return false, r.wrapL(l.Map(func(_ int, v any) any { return v })), nil
		}
	case "Set", "Unset", "ClearO", "Keys", "Values", "Pluck", "Dict", "NativeDict", "MapIdO", "CloneO", "Merge":
		ob := r.object(o.R)
		switch o.Op {
		case "Set":
			return false, ob.Set(r.args(o.Vs)...), nil
		case "Unset":
			return false, ob.Unset(r.keys(o.Ks)...), nil
		case "ClearO":
			return false, ob.Clear(), nil
		case "Keys":
			return false, r.wrapL(ob.Keys()), nil
		case "Values":
			return false, r.wrapL(ob.Values()), nil
		case "Pluck":
			// the caller's own slice of keys is an argument too: it must come back unchanged (C09)
			ks := r.keys(o.Ks)
			before := append([]string(nil), ks...)
			res := ob.Pluck(ks...)
			for i := range ks {
				if ks[i] != before[i] {
					panic(fmt.Sprintf("verif: Pluck changed the caller's slice of keys: %q -> %q", before, ks))
				}
			}
			return false, r.wrapO(res), nil
		case "Dict":
			return false, &GoMap{M: ob.Dict()}, nil
		case "NativeDict":
			return false, &GoMap{M: ob.NativeDict()}, nil
		case "MapIdO":
			return false, r.wrapO(ob.Map(func(_ string, v any) any { return v })), nil
		case "CloneO":
			return false, r.wrapO(ob.Clone()), nil
		case "Merge":
			return false, r.wrapO(ob.Merge(r.object(o.J))), nil
		}
	case "GetTF":
		// GetTF and TypeOfTF must agree: Undefined exactly when GetTF panics, else the kind of the value
		path := r.PathString(o.Vs)
		var v any
		var typ at.Type
		var gp any
		func() {
			defer func() { gp = recover() }()
			switch c := r.Fwd[o.R].(type) {
			case at.List:
				typ = c.TypeOfTF(path)
				v = c.GetTF(path)
			case at.Object:
				typ = c.TypeOfTF(path)
				v = c.GetTF(path)
			}
		}()
		if gp != nil {
			if typ != at.TypeUndefined {
				return false, fmt.Sprintf("verif: GetTF(%q) panicked (%v) but TypeOfTF reports kind %d", path, gp, typ), nil
			}
			panic(gp)
		}
		if typ == at.TypeUndefined {
			return false, fmt.Sprintf("verif: GetTF(%q) returned %v but TypeOfTF reports Undefined", path, v), nil
		}
		return false, v, nil
	case "SetTF", "UnsetTF":
		path := r.PathString(o.Vs)
		switch c := r.Fwd[o.R].(type) {
		case at.List:
			if o.Op == "SetTF" {
				return false, c.SetTF(path, r.arg(o.V)), nil
			}
			return false, c.UnsetTF(path), nil
		case at.Object:
			if o.Op == "SetTF" {
				return false, c.SetTF(path, r.arg(o.V)), nil
			}
			return false, c.UnsetTF(path), nil
		}
	}
	panic("harness: unknown operation " + o.Op)
}

func (r *Real) keys(ks []int) []string {
	out := make([]string, len(ks))
	for i, k := range ks {
		out[i] = r.T.Str(k)
	}
	return out
}

// Mismatch describes a divergence between model and implementation.
type Mismatch struct{ Msg string }

func (m *Mismatch) Error() string { return m.Msg }

func mis(format string, a ...any) *Mismatch { return &Mismatch{Msg: fmt.Sprintf(format, a...)} }

var kindType = map[string]at.Type{"nil": at.TypeNil, "bool": at.TypeBool, "int": at.TypeInt, "float": at.TypeFloat, "str": at.TypeString}

func safe(f func()) (p any) {
	defer func() { p = recover() }()
	f()
	return nil
}

// bindOrCheck relates model reference x to the real value got.
func (r *Real) bindOrCheck(x int, got any, where string, work *[]int) *Mismatch {
	if cur, ok := r.Fwd[x]; ok {
		if cur != got {
			return mis("%s: model holds container #%d, the implementation returns a different container (identity lost; #%d is %T %p, got %T %p)", where, x, x, cur, cur, got, got)
		}
		return nil
	}
	if y, ok := r.Rev[got]; ok {
		return mis("%s: model holds the distinct container #%d here, the implementation returns the container already known as #%d (storage/identity shared)", where, x, y)
	}
	r.bind(x, got)
	*work = append(*work, x)
	return nil
}

// scalarEq compares a returned Go value with the expected token (exact dynamic type).
func (r *Real) scalarEq(exp model.Val, got any) bool {
	want := r.T.Go(exp)
	if want == nil {
		return got == nil
	}
	if got == nil {
		return false
	}
	if reflect.TypeOf(want) != reflect.TypeOf(got) {
		return false
	}
	return want == got
}

func (r *Real) checkSlot(h model.Heap, exp model.Val, typ at.Type, get func() any, where string, work *[]int) *Mismatch {
	if exp.K == "ref" {
		wantT := at.TypeList
		if h[exp.V-1].T == "O" {
			wantT = at.TypeObject
		}
		if typ != wantT {
			return mis("%s: TypeOf = %d, model has a container of type %d", where, typ, wantT)
		}
		var got any
		if p := safe(func() { got = get() }); p != nil {
			return mis("%s: Get panicked (%v), model has container #%d", where, p, exp.V)
		}
		return r.bindOrCheck(exp.V, got, where, work)
	}
	if typ != kindType[exp.K] {
		return mis("%s: TypeOf = %d, model has %s", where, typ, exp)
	}
	var got any
	if p := safe(func() { got = get() }); p != nil {
		return mis("%s: Get panicked (%v), model has %s", where, p, exp)
	}
	if !r.scalarEq(exp, got) {
		return mis("%s: Get = %#v, model has %s (= %#v)", where, got, exp, r.T.Go(exp))
	}
	return nil
}

func (r *Real) checkGoElem(h model.Heap, exp model.Val, got any, where string, work *[]int) *Mismatch {
	if exp.K != "ref" {
		if !r.scalarEq(exp, got) {
			return mis("%s: Go value holds %#v, model has %s (= %#v)", where, got, exp, r.T.Go(exp))
		}
		return nil
	}
	switch h[exp.V-1].T {
	case "L":
		l, ok := got.(at.List)
		if !ok {
			return mis("%s: Go value holds %T, model has List #%d", where, got, exp.V)
		}
		return r.bindOrCheck(exp.V, l, where, work)
	case "O":
		o, ok := got.(at.Object)
		if !ok {
			return mis("%s: Go value holds %T, model has Object #%d", where, got, exp.V)
		}
		return r.bindOrCheck(exp.V, o, where, work)
	case "GS":
		s, ok := got.([]any)
		if !ok {
			return mis("%s: Go value holds %T, model has a plain []any (#%d)", where, got, exp.V)
		}
		if cur, ok := r.Fwd[exp.V]; ok {
			cs := cur.(*GoSlice)
			if len(cs.S) != len(s) || (len(s) > 0 && &cs.S[0] != &s[0]) {
				return mis("%s: model holds Go slice #%d here, the implementation holds a different slice (len %d vs %d)", where, exp.V, len(s), len(cs.S))
			}
			*work = append(*work, exp.V)
			return nil
		}
		r.bind(exp.V, &GoSlice{S: s})
		*work = append(*work, exp.V)
		return nil
	case "GM":
		m, ok := got.(map[string]any)
		if !ok {
			return mis("%s: Go value holds %T, model has a plain map[string]any (#%d)", where, got, exp.V)
		}
		if cur, ok := r.Fwd[exp.V]; ok {
			if reflect.ValueOf(cur.(*GoMap).M).Pointer() != reflect.ValueOf(m).Pointer() {
				return mis("%s: model holds Go map #%d, the implementation holds a different map", where, exp.V)
			}
			return nil
		}
		for y, v := range r.Fwd {
			if gm, ok := v.(*GoMap); ok && y != exp.V && reflect.ValueOf(gm.M).Pointer() == reflect.ValueOf(m).Pointer() {
				return mis("%s: model has distinct Go maps #%d and #%d, the implementation uses one map for both", where, exp.V, y)
			}
		}
		r.bind(exp.V, &GoMap{M: m})
		*work = append(*work, exp.V)
		return nil
	}
	return nil
}

// Compare checks that the real heap is isomorphic to the abstract heap h, extending the binding
// with containers discovered on the way.
func (r *Real) Compare(h model.Heap) *Mismatch {
	work := make([]int, 0, len(h))
	for id := range r.Fwd {
		if id <= len(h) {
			work = append(work, id)
		}
	}
	sort.Ints(work)
	seen := map[int]bool{}
	for len(work) > 0 {
		id := work[0]
		work = work[1:]
		if seen[id] {
			continue
		}
		seen[id] = true
		cell := h[id-1]
		switch cell.T {
		case "L":
			l, ok := r.Fwd[id].(at.List)
			if !ok {
				return mis("#%d: model has a List, implementation has %T", id, r.Fwd[id])
			}
			r.Calls += 1 + 2*len(cell.E)
			if n := l.Count(); n != len(cell.E) {
				return mis("List #%d: Count = %d, model has %d elements %v; list is %s", id, n, len(cell.E), cell.E, safeString(l))
			}
			for i, exp := range cell.E {
				i := i
				if m := r.checkSlot(h, exp, l.TypeOf(i), func() any { return l.Get(i) }, fmt.Sprintf("List #%d[%d]", id, i), &work); m != nil {
					return m
				}
			}
		case "O":
			o, ok := r.Fwd[id].(at.Object)
			if !ok {
				return mis("#%d: model has an Object, implementation has %T", id, r.Fwd[id])
			}
			present := 0
			for k, exp := range cell.E {
				key := r.T.Str(k + 1)
				r.Calls += 3
				if exp.K == "absent" {
					if o.KeyExists(key) || o.TypeOf(key) != at.TypeUndefined {
						return mis("Object #%d: key %q exists (type %d), model has no such field; object is %s", id, key, o.TypeOf(key), safeString(o))
					}
					continue
				}
				present++
				if !o.KeyExists(key) {
					return mis("Object #%d: key %q missing, model has %s; object is %s", id, key, exp, safeString(o))
				}
				if m := r.checkSlot(h, exp, o.TypeOf(key), func() any { return o.Get(key) }, fmt.Sprintf("Object #%d[%q]", id, key), &work); m != nil {
					return m
				}
			}
			if n := o.Count(); n != present {
				return mis("Object #%d: Count = %d, model has %d fields; object is %s", id, n, present, safeString(o))
			}
		case "GS":
			g, ok := r.Fwd[id].(*GoSlice)
			if !ok {
				return mis("#%d: model has a Go slice, harness holds %T", id, r.Fwd[id])
			}
			if len(g.S) != len(cell.E) {
				return mis("Go slice #%d: len = %d, model has %d elements (%v vs %v)", id, len(g.S), len(cell.E), g.S, cell.E)
			}
			if g.S == nil {
				return mis("Go slice #%d is nil; the content is an empty list, whose native form is an empty (non-nil) []any", id)
			}
			for i, exp := range cell.E {
				if m := r.checkGoElem(h, exp, g.S[i], fmt.Sprintf("Go slice #%d[%d]", id, i), &work); m != nil {
					return m
				}
			}
		case "GM":
			g, ok := r.Fwd[id].(*GoMap)
			if !ok {
				return mis("#%d: model has a Go map, harness holds %T", id, r.Fwd[id])
			}
			present := 0
			for k, exp := range cell.E {
				key := r.T.Str(k + 1)
				got, exists := g.M[key]
				if exp.K == "absent" {
					if exists {
						return mis("Go map #%d: key %q present (%#v), model has none", id, key, got)
					}
					continue
				}
				present++
				if !exists {
					return mis("Go map #%d: key %q missing, model has %s", id, key, exp)
				}
				if m := r.checkGoElem(h, exp, got, fmt.Sprintf("Go map #%d[%q]", id, key), &work); m != nil {
					return m
				}
			}
			if len(g.M) != present {
				return mis("Go map #%d: %d keys, model has %d (%v)", id, len(g.M), present, g.M)
			}
		}
	}
	return nil
}

func safeString(x any) (s string) {
	defer func() {
		if e := recover(); e != nil {
			s = fmt.Sprintf("<String() panicked: %v>", e)
		}
	}()
	switch c := x.(type) {
	case at.List:
		return c.String()
	case at.Object:
		return c.String()
	}
	return fmt.Sprint(x)
}

// CheckRet relates the returned value of an operation to the expected abstract return value.
func (r *Real) CheckRet(exp model.Val, ret any, fresh bool) *Mismatch {
	switch exp.K {
	case "none":
		return nil
	case "ref":
		if cur, ok := r.Fwd[exp.V]; ok {
			if cur != ret {
				return mis("returned value is not the registered container #%d (got %T %p, want %T %p)", exp.V, ret, ret, cur, cur)
			}
			return nil
		}
		if ret == nil {
			return mis("returned nil, model returns the new container #%d", exp.V)
		}
		if y, ok := r.Rev[ret]; ok {
			return mis("returned the existing container #%d, model returns a new container #%d", y, exp.V)
		}
		r.bind(exp.V, ret)
		return nil
	}
	if !r.scalarEq(exp, ret) {
		return mis("returned %#v, model returns %s", ret, exp)
	}
	return nil
}

// Snapshot / Restore of the binding (used to try several allowed successors).
func (r *Real) Snapshot() (map[int]any, map[any]int) {
	f := make(map[int]any, len(r.Fwd))
	for k, v := range r.Fwd {
		f[k] = v
	}
	rv := make(map[any]int, len(r.Rev))
	for k, v := range r.Rev {
		rv[k] = v
	}
	return f, rv
}

func (r *Real) Restore(f map[int]any, rv map[any]int) { r.Fwd, r.Rev = f, rv }

// nativeMatches: the native value holds no anytype container at any depth and has the container's content.
func nativeMatches(n any, c any) bool {
	switch x := c.(type) {
	case at.List:
		s, ok := n.([]any)
		if !ok || s == nil || len(s) != x.Count() {
			return false
		}
		for i := range s {
			if !nativeMatches(s[i], x.Get(i)) {
				return false
			}
		}
		return true
	case at.Object:
		m, ok := n.(map[string]any)
		if !ok || m == nil || len(m) != x.Count() {
			return false
		}
		keys := x.Keys()
		for i := 0; i < keys.Count(); i++ {
			k := keys.GetString(i)
			v, ok := m[k]
			if !ok || !nativeMatches(v, x.Get(k)) {
				return false
			}
		}
		return true
	}
	switch n.(type) {
	case at.List, at.Object:
		return false
	}
	if n == nil || c == nil {
		return n == nil && c == nil
	}
	return reflect.TypeOf(n) == reflect.TypeOf(c) && n == c
}
