package jsonx

import (
	"encoding/json"
	"fmt"
	"math"
	"math/rand"
	"strings"
)

// ATree is an abstract value tree printed by TLC:
//
//	["s", class] ["n", class] ["l", literal] ["L", [trees]] ["O", [[keyclass, tree], ...]]
type ATree struct {
	Kind  string // s n l L O
	Class string
	Elems []*ATree
	Keys  []string // key classes (O)
}

func (t *ATree) UnmarshalJSON(b []byte) error {
	var raw []json.RawMessage
	if err := json.Unmarshal(b, &raw); err != nil {
		return err
	}
	if len(raw) != 2 {
		return fmt.Errorf("tree: want 2 elements: %s", b)
	}
	if err := json.Unmarshal(raw[0], &t.Kind); err != nil {
		return err
	}
	switch t.Kind {
	case "s", "n", "l":
		return json.Unmarshal(raw[1], &t.Class)
	case "L":
		return json.Unmarshal(raw[1], &t.Elems)
	case "O":
		var ms [][]json.RawMessage
		if err := json.Unmarshal(raw[1], &ms); err != nil {
			return err
		}
		for _, m := range ms {
			var k string
			var v ATree
			if err := json.Unmarshal(m[0], &k); err != nil {
				return err
			}
			if err := json.Unmarshal(m[1], &v); err != nil {
				return err
			}
			t.Keys = append(t.Keys, k)
			t.Elems = append(t.Elems, &v)
		}
		return nil
	}
	return fmt.Errorf("tree: unknown kind %q", t.Kind)
}

// CTree is a concrete value tree.
type CTree struct {
	Kind  byte // 's' string, 'i' int, 'f' float, 'b' bool, 'z' nil, 'L', 'O'
	S     string
	I     int
	F     float64
	B     bool
	Elems []*CTree
	Keys  []string
	Raw   string // raw scalar text when read from a document
}

func (c *CTree) String() string {
	switch c.Kind {
	case 's':
		return fmt.Sprintf("%q", c.S)
	case 'i':
		return fmt.Sprintf("int %d", c.I)
	case 'f':
		return fmt.Sprintf("float %v (%016x)", c.F, math.Float64bits(c.F))
	case 'b':
		return fmt.Sprint(c.B)
	case 'z':
		return "nil"
	case 'L':
		var p []string
		for _, e := range c.Elems {
			p = append(p, e.String())
		}
		return "[" + strings.Join(p, ", ") + "]"
	case 'O':
		var p []string
		for i, e := range c.Elems {
			p = append(p, fmt.Sprintf("%q: %s", c.Keys[i], e.String()))
		}
		return "{" + strings.Join(p, ", ") + "}"
	}
	return "?"
}

// Picker chooses class members deterministically from a seed and a running counter.
type Picker struct {
	Rng  *rand.Rand
	Base int
	n    int
}

func NewPicker(seed int64, base int) *Picker {
	return &Picker{Rng: rand.New(rand.NewSource(seed)), Base: base}
}

func (p *Picker) next() int { p.n++; return p.Base + p.n*7 }

// Concretise builds a concrete tree for the serialise direction: object keys are made distinct
// (two members of the same key class in one object get different texts).
func Concretise(a *ATree, p *Picker) *CTree {
	switch a.Kind {
	case "s":
		return &CTree{Kind: 's', S: StrMember(a.Class, p.next())}
	case "n":
		n := NumMember(a.Class, p.next(), p.Rng)
		if n.IsFloat {
			return &CTree{Kind: 'f', F: n.F}
		}
		return &CTree{Kind: 'i', I: n.I}
	case "l":
		switch a.Class {
		case "true":
			return &CTree{Kind: 'b', B: true}
		case "false":
			return &CTree{Kind: 'b', B: false}
		}
		return &CTree{Kind: 'z'}
	case "L":
		c := &CTree{Kind: 'L'}
		for _, e := range a.Elems {
			c.Elems = append(c.Elems, Concretise(e, p))
		}
		return c
	case "O":
		c := &CTree{Kind: 'O'}
		used := map[string]bool{}
		for i, e := range a.Elems {
			k := StrMember(a.Keys[i], p.next())
			for j := 0; used[k]; j++ {
				k = StrMember(a.Keys[i], p.next()+j)
				if j > 8 {
					k = k + fmt.Sprintf("#%d", i)
				}
			}
			used[k] = true
			c.Keys = append(c.Keys, k)
			c.Elems = append(c.Elems, Concretise(e, p))
		}
		return c
	}
	panic("jsonx: bad abstract tree")
}

// EqualTree compares two concrete trees: kinds exact, floats bit-identical, objects as key sets.
func EqualTree(a, b *CTree, path string) error {
	if a.Kind != b.Kind {
		return fmt.Errorf("%s: kind %c vs %c (%s vs %s)", path, a.Kind, b.Kind, a, b)
	}
	switch a.Kind {
	case 's':
		if a.S != b.S {
			return fmt.Errorf("%s: string %q vs %q", path, a.S, b.S)
		}
	case 'i':
		if a.I != b.I {
			return fmt.Errorf("%s: int %d vs %d", path, a.I, b.I)
		}
	case 'f':
		if math.Float64bits(a.F) != math.Float64bits(b.F) {
			return fmt.Errorf("%s: float %v (%016x) vs %v (%016x)", path, a.F, math.Float64bits(a.F), b.F, math.Float64bits(b.F))
		}
	case 'b':
		if a.B != b.B {
			return fmt.Errorf("%s: bool %v vs %v", path, a.B, b.B)
		}
	case 'L':
		if len(a.Elems) != len(b.Elems) {
			return fmt.Errorf("%s: list length %d vs %d", path, len(a.Elems), len(b.Elems))
		}
		for i := range a.Elems {
			if err := EqualTree(a.Elems[i], b.Elems[i], fmt.Sprintf("%s[%d]", path, i)); err != nil {
				return err
			}
		}
	case 'O':
		if len(a.Elems) != len(b.Elems) {
			return fmt.Errorf("%s: object size %d vs %d (keys %q vs %q)", path, len(a.Elems), len(b.Elems), a.Keys, b.Keys)
		}
		idx := map[string]int{}
		for i, k := range b.Keys {
			if _, dup := idx[k]; dup {
				return fmt.Errorf("%s: duplicate key %q", path, k)
			}
			idx[k] = i
		}
		for i, k := range a.Keys {
			j, ok := idx[k]
			if !ok {
				return fmt.Errorf("%s: key %q missing on the other side (has %q)", path, k, b.Keys)
			}
			if err := EqualTree(a.Elems[i], b.Elems[j], fmt.Sprintf("%s[%q]", path, k)); err != nil {
				return err
			}
		}
	}
	return nil
}

// LastWins removes earlier duplicates of a key (what a reference decoder returns).
func (c *CTree) LastWins() *CTree {
	if c.Kind == 'L' {
		out := &CTree{Kind: 'L'}
		for _, e := range c.Elems {
			out.Elems = append(out.Elems, e.LastWins())
		}
		return out
	}
	if c.Kind != 'O' {
		return c
	}
	out := &CTree{Kind: 'O'}
	last := map[string]int{}
	for i, k := range c.Keys {
		last[k] = i
	}
	for i, k := range c.Keys {
		if last[k] == i {
			out.Keys = append(out.Keys, k)
			out.Elems = append(out.Elems, c.Elems[i].LastWins())
		}
	}
	return out
}

// EqualTreeOrdered compares two trees member by member in document order (duplicate keys kept).
func EqualTreeOrdered(a, b *CTree, path string) error {
	if a.Kind != b.Kind {
		return fmt.Errorf("%s: kind %c vs %c (%s vs %s)", path, a.Kind, b.Kind, a, b)
	}
	switch a.Kind {
	case 'L', 'O':
		if len(a.Elems) != len(b.Elems) {
			return fmt.Errorf("%s: %d vs %d members", path, len(a.Elems), len(b.Elems))
		}
		for i := range a.Elems {
			if a.Kind == 'O' && a.Keys[i] != b.Keys[i] {
				return fmt.Errorf("%s: member %d key %q vs %q", path, i, a.Keys[i], b.Keys[i])
			}
			if err := EqualTreeOrdered(a.Elems[i], b.Elems[i], fmt.Sprintf("%s[%d]", path, i)); err != nil {
				return err
			}
		}
		return nil
	}
	return EqualTree(a, b, path)
}
