package jsonx

import (
	"fmt"
	"strings"
	"unicode/utf8"
)

// StrictParse is an independent, strict RFC 8259 reader. It keeps member order and duplicate
// keys, decodes strings (escapes limited to \" \\ \/ \b \f \n \r \t \uXXXX, paired surrogates
// only, no raw control characters), validates the number grammar and classifies numbers by
// NumberRule. Scalars keep their raw text.
func StrictParse(text string) (*CTree, error) {
	p := &sp{s: text}
	p.ws()
	v, err := p.value()
	if err != nil {
		return nil, err
	}
	p.ws()
	if p.i != len(p.s) {
		return nil, fmt.Errorf("offset %d: trailing characters", p.i)
	}
	return v, nil
}

type sp struct {
	s string
	i int
}

func (p *sp) ws() {
	for p.i < len(p.s) && (p.s[p.i] == ' ' || p.s[p.i] == '\n' || p.s[p.i] == '\t' || p.s[p.i] == '\r') {
		p.i++
	}
}

func (p *sp) value() (*CTree, error) {
	if p.i >= len(p.s) {
		return nil, fmt.Errorf("offset %d: unexpected end", p.i)
	}
	switch c := p.s[p.i]; {
	case c == '[':
		p.i++
		out := &CTree{Kind: 'L'}
		p.ws()
		if p.i < len(p.s) && p.s[p.i] == ']' {
			p.i++
			return out, nil
		}
		for {
			p.ws()
			v, err := p.value()
			if err != nil {
				return nil, err
			}
			out.Elems = append(out.Elems, v)
			p.ws()
			if p.i >= len(p.s) {
				return nil, fmt.Errorf("offset %d: unexpected end in array", p.i)
			}
			if p.s[p.i] == ',' {
				p.i++
				continue
			}
			if p.s[p.i] == ']' {
				p.i++
				return out, nil
			}
			return nil, fmt.Errorf("offset %d: expected ',' or ']'", p.i)
		}
	case c == '{':
		p.i++
		out := &CTree{Kind: 'O'}
		p.ws()
		if p.i < len(p.s) && p.s[p.i] == '}' {
			p.i++
			return out, nil
		}
		for {
			p.ws()
			if p.i >= len(p.s) || p.s[p.i] != '"' {
				return nil, fmt.Errorf("offset %d: expected a key", p.i)
			}
			k, err := p.str()
			if err != nil {
				return nil, err
			}
			p.ws()
			if p.i >= len(p.s) || p.s[p.i] != ':' {
				return nil, fmt.Errorf("offset %d: expected ':'", p.i)
			}
			p.i++
			p.ws()
			v, err := p.value()
			if err != nil {
				return nil, err
			}
			out.Keys = append(out.Keys, k.S)
			v.Raw = k.Raw + "\x00" + v.Raw // raw key text travels with the member
			out.Elems = append(out.Elems, v)
			p.ws()
			if p.i >= len(p.s) {
				return nil, fmt.Errorf("offset %d: unexpected end in object", p.i)
			}
			if p.s[p.i] == ',' {
				p.i++
				continue
			}
			if p.s[p.i] == '}' {
				p.i++
				return out, nil
			}
			return nil, fmt.Errorf("offset %d: expected ',' or '}'", p.i)
		}
	case c == '"':
		return p.str()
	case c == '-' || (c >= '0' && c <= '9'):
		return p.num()
	default:
		for _, lit := range []string{"true", "false", "null"} {
			if strings.HasPrefix(p.s[p.i:], lit) {
				p.i += len(lit)
				switch lit {
				case "true":
					return &CTree{Kind: 'b', B: true, Raw: lit}, nil
				case "false":
					return &CTree{Kind: 'b', B: false, Raw: lit}, nil
				}
				return &CTree{Kind: 'z', Raw: lit}, nil
			}
		}
		return nil, fmt.Errorf("offset %d: unexpected character %q", p.i, c)
	}
}

func hex4(s string) (rune, bool) {
	if len(s) < 4 {
		return 0, false
	}
	var r rune
	for i := 0; i < 4; i++ {
		c := s[i]
		switch {
		case c >= '0' && c <= '9':
			r = r<<4 | rune(c-'0')
		case c >= 'a' && c <= 'f':
			r = r<<4 | rune(c-'a'+10)
		case c >= 'A' && c <= 'F':
			r = r<<4 | rune(c-'A'+10)
		default:
			return 0, false
		}
	}
	return r, true
}

func (p *sp) str() (*CTree, error) {
	start := p.i
	p.i++ // opening quote
	var b strings.Builder
	for {
		if p.i >= len(p.s) {
			return nil, fmt.Errorf("offset %d: unterminated string", start)
		}
		c := p.s[p.i]
		switch {
		case c == '"':
			p.i++
			return &CTree{Kind: 's', S: b.String(), Raw: p.s[start:p.i]}, nil
		case c < 0x20:
			return nil, fmt.Errorf("offset %d: raw control character %#x in string", p.i, c)
		case c == '\\':
			if p.i+1 >= len(p.s) {
				return nil, fmt.Errorf("offset %d: dangling backslash", p.i)
			}
			e := p.s[p.i+1]
			p.i += 2
			switch e {
			case '"':
				b.WriteByte('"')
			case '\\':
				b.WriteByte('\\')
			case '/':
				b.WriteByte('/')
			case 'b':
				b.WriteByte('\b')
			case 'f':
				b.WriteByte('\f')
			case 'n':
				b.WriteByte('\n')
			case 'r':
				b.WriteByte('\r')
			case 't':
				b.WriteByte('\t')
			case 'u':
				r, ok := hex4(p.s[p.i:])
				if !ok {
					return nil, fmt.Errorf("offset %d: bad \\u escape", p.i)
				}
				p.i += 4
				if r >= 0xd800 && r < 0xdc00 {
					if !strings.HasPrefix(p.s[p.i:], `\u`) {
						return nil, fmt.Errorf("offset %d: lone high surrogate", p.i)
					}
					lo, ok := hex4(p.s[p.i+2:])
					if !ok || lo < 0xdc00 || lo > 0xdfff {
						return nil, fmt.Errorf("offset %d: lone high surrogate", p.i)
					}
					p.i += 6
					r = 0x10000 + (r-0xd800)<<10 + (lo - 0xdc00)
				} else if r >= 0xdc00 && r <= 0xdfff {
					return nil, fmt.Errorf("offset %d: lone low surrogate", p.i)
				}
				b.WriteRune(r)
			default:
				return nil, fmt.Errorf("offset %d: illegal escape \\%c", p.i-2, e)
			}
		default:
			r, size := utf8.DecodeRuneInString(p.s[p.i:])
			if r == utf8.RuneError && size == 1 {
				return nil, fmt.Errorf("offset %d: ill-formed UTF-8", p.i)
			}
			b.WriteString(p.s[p.i : p.i+size])
			p.i += size
		}
	}
}

func (p *sp) num() (*CTree, error) {
	start := p.i
	digits := func() int {
		n := 0
		for p.i < len(p.s) && p.s[p.i] >= '0' && p.s[p.i] <= '9' {
			p.i++
			n++
		}
		return n
	}
	if p.s[p.i] == '-' {
		p.i++
	}
	if p.i >= len(p.s) {
		return nil, fmt.Errorf("offset %d: bad number", start)
	}
	if p.s[p.i] == '0' {
		p.i++
	} else if digits() == 0 {
		return nil, fmt.Errorf("offset %d: bad number", start)
	}
	if p.i < len(p.s) && p.s[p.i] == '.' {
		p.i++
		if digits() == 0 {
			return nil, fmt.Errorf("offset %d: bad fraction", start)
		}
	}
	if p.i < len(p.s) && (p.s[p.i] == 'e' || p.s[p.i] == 'E') {
		p.i++
		if p.i < len(p.s) && (p.s[p.i] == '+' || p.s[p.i] == '-') {
			p.i++
		}
		if digits() == 0 {
			return nil, fmt.Errorf("offset %d: bad exponent", start)
		}
	}
	lit := p.s[start:p.i]
	n, err := NumberRule(lit)
	if err != nil {
		return nil, fmt.Errorf("offset %d: number %s outside float64 range: %v", start, lit, err)
	}
	if n.IsFloat {
		return &CTree{Kind: 'f', F: n.F, Raw: lit}, nil
	}
	return &CTree{Kind: 'i', I: n.I, Raw: lit}, nil
}

func rawOf(v *CTree) string {
	if i := strings.IndexByte(v.Raw, 0); i >= 0 {
		return v.Raw[i+1:]
	}
	return v.Raw
}

func keyRawOf(v *CTree) string {
	if i := strings.IndexByte(v.Raw, 0); i >= 0 {
		return v.Raw[:i]
	}
	return ""
}

// Render lays a tree (as read by StrictParse, raw scalar texts) out canonically: one element per
// line, n spaces per nesting level, empty containers on one line, `"key": value`.
func Render(v *CTree, n int) string {
	var b strings.Builder
	render(&b, v, n, 0)
	return b.String()
}

func render(b *strings.Builder, v *CTree, n, lvl int) {
	switch v.Kind {
	case 'L', 'O':
		open, close := "[", "]"
		if v.Kind == 'O' {
			open, close = "{", "}"
		}
		b.WriteString(open)
		if len(v.Elems) == 0 {
			b.WriteString(close)
			return
		}
		for i, e := range v.Elems {
			b.WriteByte('\n')
			b.WriteString(strings.Repeat(" ", n*(lvl+1)))
			if v.Kind == 'O' {
				b.WriteString(keyRawOf(e))
				b.WriteString(": ")
			}
			render(b, e, n, lvl+1)
			if i+1 < len(v.Elems) {
				b.WriteByte(',')
			}
		}
		b.WriteByte('\n')
		b.WriteString(strings.Repeat(" ", n*lvl))
		b.WriteString(close)
	default:
		b.WriteString(rawOf(v))
	}
}

// LayoutTok is one token of TLC's Layout(tree): ["p", text, ""], ["nl", "", level],
// ["leaf", kind, class], ["key", class, ""].
type LayoutTok struct {
	Kind  string
	A     string
	Level int
}

// RenderTLC fills TLC's layout skeleton with the scalar / key texts in document order.
func RenderTLC(layout []LayoutTok, texts []string, n int) (string, error) {
	var b strings.Builder
	ti := 0
	for _, t := range layout {
		switch t.Kind {
		case "p":
			b.WriteString(t.A)
		case "nl":
			b.WriteByte('\n')
			b.WriteString(strings.Repeat(" ", n*t.Level))
		case "leaf", "key":
			if ti >= len(texts) {
				return "", fmt.Errorf("layout needs more than %d scalar texts", len(texts))
			}
			b.WriteString(texts[ti])
			ti++
		}
	}
	if ti != len(texts) {
		return "", fmt.Errorf("layout used %d of %d scalar texts", ti, len(texts))
	}
	return b.String(), nil
}

// ScalarTexts lists key and scalar raw texts of a strict tree in document order.
func ScalarTexts(v *CTree) []string {
	var out []string
	var walk func(v *CTree)
	walk = func(v *CTree) {
		switch v.Kind {
		case 'L':
			for _, e := range v.Elems {
				walk(e)
			}
		case 'O':
			for _, e := range v.Elems {
				out = append(out, keyRawOf(e))
				walk(e)
			}
		default:
			out = append(out, rawOf(v))
		}
	}
	walk(v)
	return out
}
