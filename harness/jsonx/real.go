package jsonx

import (
	"encoding/json"
	"fmt"
	"io"
	"strings"

	at "github.com/DanielSvub/anytype"
)

// Build creates the real container for a concrete tree. how selects the entry points:
// 0: NewList/NewObject with nested containers, 1: Go natives through NewListFrom/NewObjectFrom,
// 2: element-wise Add/Set.
func Build(c *CTree, how int) any {
	if how == 3 {
		return buildShared(c, map[string]any{})
	}
	switch c.Kind {
	case 's':
		return c.S
	case 'i':
		return c.I
	case 'f':
		return c.F
	case 'b':
		return c.B
	case 'z':
		return nil
	case 'L':
		if how == 1 {
			s := make([]any, 0, len(c.Elems))
			for _, e := range c.Elems {
				s = append(s, native(e))
			}
			return at.NewListFrom(s)
		}
		args := make([]any, 0, len(c.Elems))
		for _, e := range c.Elems {
			args = append(args, Build(e, how))
		}
		if how == 2 {
			l := at.NewList()
			for _, a := range args {
				l.Add(a)
			}
			return l
		}
		return at.NewList(args...)
	case 'O':
		if how == 1 {
			m := map[string]any{}
			for i, e := range c.Elems {
				m[c.Keys[i]] = native(e)
			}
			return at.NewObjectFrom(m)
		}
		if how == 2 {
			o := at.NewObject()
			for i, e := range c.Elems {
				o.Set(c.Keys[i], Build(e, how))
			}
			return o
		}
		args := make([]any, 0, 2*len(c.Elems))
		for i, e := range c.Elems {
			args = append(args, c.Keys[i], Build(e, how))
		}
		return at.NewObject(args...)
	}
	panic("jsonx: bad concrete tree")
}

func native(c *CTree) any {
	switch c.Kind {
	case 'L':
		s := make([]any, 0, len(c.Elems))
		for _, e := range c.Elems {
			s = append(s, native(e))
		}
		return s
	case 'O':
		m := map[string]any{}
		for i, e := range c.Elems {
			m[c.Keys[i]] = native(e)
		}
		return m
	}
	return Build(c, 0)
}

// Project reads a real container back into a concrete tree using only TypeOf / Get / Keys / Count
// (independent of Equals and of the serialiser).
func Project(x any) (*CTree, error) {
	switch v := x.(type) {
	case at.List:
		out := &CTree{Kind: 'L'}
		for i := 0; i < v.Count(); i++ {
			e, err := projectSlot(v.TypeOf(i), v.Get(i))
			if err != nil {
				return nil, fmt.Errorf("[%d]: %v", i, err)
			}
			out.Elems = append(out.Elems, e)
		}
		return out, nil
	case at.Object:
		out := &CTree{Kind: 'O'}
		keys := v.Keys()
		for i := 0; i < keys.Count(); i++ {
			k := keys.GetString(i)
			e, err := projectSlot(v.TypeOf(k), v.Get(k))
			if err != nil {
				return nil, fmt.Errorf("[%q]: %v", k, err)
			}
			out.Keys = append(out.Keys, k)
			out.Elems = append(out.Elems, e)
		}
		if v.Count() != len(out.Keys) {
			return nil, fmt.Errorf("Count %d but %d keys", v.Count(), len(out.Keys))
		}
		return out, nil
	}
	return nil, fmt.Errorf("not a container: %T", x)
}

func projectSlot(t at.Type, g any) (*CTree, error) {
	switch t {
	case at.TypeNil:
		if g != nil {
			return nil, fmt.Errorf("TypeNil but Get = %#v", g)
		}
		return &CTree{Kind: 'z'}, nil
	case at.TypeString:
		s, ok := g.(string)
		if !ok {
			return nil, fmt.Errorf("TypeString but Get = %T", g)
		}
		return &CTree{Kind: 's', S: s}, nil
	case at.TypeBool:
		b, ok := g.(bool)
		if !ok {
			return nil, fmt.Errorf("TypeBool but Get = %T", g)
		}
		return &CTree{Kind: 'b', B: b}, nil
	case at.TypeInt:
		i, ok := g.(int)
		if !ok {
			return nil, fmt.Errorf("TypeInt but Get = %T", g)
		}
		return &CTree{Kind: 'i', I: i}, nil
	case at.TypeFloat:
		f, ok := g.(float64)
		if !ok {
			return nil, fmt.Errorf("TypeFloat but Get = %T", g)
		}
		return &CTree{Kind: 'f', F: f}, nil
	case at.TypeList, at.TypeObject:
		return Project(g)
	}
	return nil, fmt.Errorf("TypeOf = %d", t)
}

// StdParse decodes a document with encoding/json (UseNumber) into a concrete tree, keeping member
// order and duplicates; numbers are classified by NumberRule on their literal.
func StdParse(text string) (*CTree, error) {
	dec := json.NewDecoder(strings.NewReader(text))
	dec.UseNumber()
	v, err := stdValue(dec)
	if err != nil {
		return nil, err
	}
	if _, err := dec.Token(); err != io.EOF {
		return nil, fmt.Errorf("trailing data after the document")
	}
	return v, nil
}

func stdValue(dec *json.Decoder) (*CTree, error) {
	tok, err := dec.Token()
	if err != nil {
		return nil, err
	}
	switch t := tok.(type) {
	case json.Delim:
		switch t {
		case '[':
			out := &CTree{Kind: 'L'}
			for dec.More() {
				e, err := stdValue(dec)
				if err != nil {
					return nil, err
				}
				out.Elems = append(out.Elems, e)
			}
			if _, err := dec.Token(); err != nil {
				return nil, err
			}
			return out, nil
		case '{':
			out := &CTree{Kind: 'O'}
			for dec.More() {
				kt, err := dec.Token()
				if err != nil {
					return nil, err
				}
				k, ok := kt.(string)
				if !ok {
					return nil, fmt.Errorf("non-string key")
				}
				e, err := stdValue(dec)
				if err != nil {
					return nil, err
				}
				out.Keys = append(out.Keys, k)
				out.Elems = append(out.Elems, e)
			}
			if _, err := dec.Token(); err != nil {
				return nil, err
			}
			return out, nil
		}
		return nil, fmt.Errorf("unexpected delimiter %v", t)
	case string:
		return &CTree{Kind: 's', S: t}, nil
	case bool:
		return &CTree{Kind: 'b', B: t}, nil
	case nil:
		return &CTree{Kind: 'z'}, nil
	case json.Number:
		n, err := NumberRule(string(t))
		if err != nil {
			return nil, err
		}
		if n.IsFloat {
			return &CTree{Kind: 'f', F: n.F, Raw: string(t)}, nil
		}
		return &CTree{Kind: 'i', I: n.I, Raw: string(t)}, nil
	}
	return nil, fmt.Errorf("unexpected token %T", tok)
}

// Parse calls the entry point matching the root kind.
func Parse(root byte, text string) (any, error) {
	if root == 'L' {
		l, err := at.ParseList(text)
		if l == nil {
			return nil, err
		}
		return l, err
	}
	o, err := at.ParseObject(text)
	if o == nil {
		return nil, err
	}
	return o, err
}

func Str(x any) string {
	switch v := x.(type) {
	case at.List:
		return v.String()
	case at.Object:
		return v.String()
	}
	panic("not a container")
}

func Equals(a, b any) bool {
	switch v := a.(type) {
	case at.List:
		w, ok := b.(at.List)
		return ok && v.Equals(w)
	case at.Object:
		w, ok := b.(at.Object)
		return ok && v.Equals(w)
	}
	return false
}

func Format(x any, n int) string {
	switch v := x.(type) {
	case at.List:
		return v.FormatString(n)
	case at.Object:
		return v.FormatString(n)
	}
	panic("not a container")
}

// buildShared builds the container as a DAG: equal subtrees are ONE container instance stored in several places
// (acyclic, but not a tree). The content is the same as that of the tree.
func buildShared(c *CTree, memo map[string]any) any {
	switch c.Kind {
	case 'L', 'O':
		key := c.String()
		if x, ok := memo[key]; ok {
			return x
		}
		var out any
		if c.Kind == 'L' {
			l := at.NewList()
			for _, e := range c.Elems {
				l.Add(buildShared(e, memo))
			}
			out = l
		} else {
			o := at.NewObject()
			for i, e := range c.Elems {
				o.Set(c.Keys[i], buildShared(e, memo))
			}
			out = o
		}
		memo[key] = out
		return out
	}
	return Build(c, 0)
}
