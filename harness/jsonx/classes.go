// Package jsonx concretises the abstract documents of spec/JsonText.tla (scalar classes ->
// concrete strings / numbers / literal texts) and holds the black-box oracles of the JSON
// family: an ordered strict RFC 8259 reader, the canonical layout renderer, number rules.
package jsonx

import (
	"fmt"
	"math"
	"math/rand"
	"strconv"
	"strings"
	"unicode/utf8"
)

// StrMembers: members of each string class (used for values and keys).
var StrMembers = map[string][]string{
	"empty":     {""},
	"ascii":     {"a", "hello", "A z", "0", "true", "null", "[1]", "{\"", "x,y", "a:b", "100%", "a%%b", "%s%d"},
	"quote":     {"\"", "a\"b", "\"\"", "say \"hi\""},
	"backslash": {"\\", "a\\b", "C:\\data\\", "\\\\", "x\\", "\\n", "\\u0041"},
	"slash":     {"/", "a/b", "\\/", "C:\\/temp", "</script>"},
	"c0short":   {"\b", "\f", "\n", "\r", "\t", "a\nb", "\r\n", "tab\there"},
	"c0other":   {"\x00", "\x01", "\x1f", "\x01\x02", "\x0b\x0e", "a\x07b", "\x1b[0m", "\x00\x00"},
	"del":       {"\x7f", "a\x7fb"},
	"latin1np":  {"\u0080", "\u009f", "\u00ad", "\u0085"},
	"ls":        {"\u2028", "\u2029", "a\u2028b"},
	"fffd":      {"\ufffd", "a\ufffdb", "\ufffd\ufffd"},
	"bmp":       {"é", "ž", "漢字", "ß", "Ω", "\u00a0"},
	"bmpnp":     {"\ufeff", "\u200b", "\ue000", "\uffff", "\ufdd0", "\u0378"},
	// the last five: an astral character after runs of 7 … 255 BMP characters (in the \u spellings: a surrogate pair
	// that follows a run of exactly that many escapes — decoders that work in blocks must not split it)
	"astral": {"😀", "𝄞", "a😀b", "𐍈", strings.Repeat("a", 7) + "😀", strings.Repeat("é", 15) + "😀" + strings.Repeat("b", 15) + "𝄞",
		strings.Repeat("x", 31) + "𐍈" + strings.Repeat("y", 31) + "😀", strings.Repeat("ž", 63) + "😀", strings.Repeat("a", 127) + "𝄞" + strings.Repeat("b", 127) + "😀", strings.Repeat("q", 255) + "😀"},
	"astralnp": {"\U000e0001", "\U000f0000", "\U0010ffff", "\U0003fffe", "\U000e0001\U000e0002"},
	"sigils":   {".", "#", ".a#1", "a.b", "#0"},
	"brackets": {"]", "}", "see [1] and [2]", "{\"ids\":[1,2]}", "],[", "- [ ] todo", "{ }", "[   ]x{  }", ", : ,", "\\\"]", "™]x", "a•}", "Ģ]", "Ŝ\"]"},
	// the later members: a multi-byte character that straddles byte offset 64, 128, 256, 1024, 4096 of the literal
	"long": {strings.Repeat("ab", 300), strings.Repeat("é", 129), strings.Repeat("a", 63) + "é" + strings.Repeat("b", 64) + "漢" + strings.Repeat("c", 125) + "😀",
		strings.Repeat("a", 62) + "漢" + "tail", strings.Repeat("a", 61) + "😀" + strings.Repeat("a", 62) + "😀", strings.Repeat("x", 1023) + "ž" + strings.Repeat("y", 3070) + "漢z",
		strings.Repeat("q", 127) + "é", strings.Repeat("q", 255) + "😀q"},
}

// StrClassOrder is the class list (stable order for reports).
var StrClassOrder = []string{"empty", "ascii", "quote", "backslash", "slash", "c0short", "c0other", "del", "latin1np", "ls", "fffd", "bmp", "bmpnp", "astral", "astralnp", "sigils", "brackets", "long"}

// Num is a concrete number value.
type Num struct {
	IsFloat bool
	I       int
	F       float64
}

func (n Num) String() string {
	if n.IsFloat {
		return fmt.Sprintf("float(%s bits=%016x)", strconv.FormatFloat(n.F, 'g', -1, 64), math.Float64bits(n.F))
	}
	return fmt.Sprintf("int(%d)", n.I)
}

func fl(f float64) Num { return Num{IsFloat: true, F: f} }
func in(i int) Num     { return Num{I: i} }

// NumMembers: members of each number VALUE class (serialise direction: C01 C02 C16).
var NumMembers = map[string][]Num{
	"int0":       {in(0)},
	"int1":       {in(1), in(7), in(42), in(1000000), in(123456789)},
	"intneg":     {in(-1), in(-12), in(-1000000)},
	"intmax":     {in(math.MaxInt), in(math.MaxInt - 1), in(1 << 53), in(1<<53 + 1)},
	"intmin":     {in(math.MinInt), in(math.MinInt + 1), in(-(1 << 53) - 1)},
	"wholeFloat": {fl(3), fl(1), fl(-2), fl(100), fl(999999), fl(123456), fl(-999999)},
	"negZero":    {fl(math.Copysign(0, -1)), fl(0)},
	"frac":       {fl(1.5), fl(-0.25), fl(3.14), fl(0.1), fl(0.000002), fl(999999.5), fl(123456.789)},
	"e6":         {fl(1e6), fl(-2e6), fl(1000000.5), fl(1234567), fl(1.5e6), fl(1e7), fl(9007199254740992), fl(9223372036854775808), fl(1e19), fl(-1e19), fl(18446744073709551616), fl(1e20)},
	"em6":        {fl(1e-6), fl(5e-7), fl(-1e-6), fl(0.0000011), fl(1.6e-8), fl(9.999e-7)},
	"expBig":     {fl(1e21), fl(1e22), fl(1e300), fl(-1e300), fl(1.2345678901234567e200), fl(1e100)},
	"expSmall":   {fl(1e-7), fl(1e-300), fl(-1e-300), fl(2.2250738585072014e-308)},
	"sub":        {fl(5e-324), fl(-5e-324), fl(2.225073858507201e-308), fl(1e-310)},
	"maxFloat":   {fl(math.MaxFloat64), fl(-math.MaxFloat64), fl(math.Nextafter(math.MaxFloat64, 0))},
	"dig17":      {fl(0.1 + 0.2), fl(1.0 / 3.0), fl(2.0 / 3.0), fl(100.0 / 3.0), fl(0.30000000000000004), fl(1.7976931348623157e308), fl(4.35), fl(5e-324 * 3)},
}

var NumClassOrder = []string{"int0", "int1", "intneg", "intmax", "intmin", "wholeFloat", "negZero", "frac", "e6", "em6", "expBig", "expSmall", "sub", "maxFloat", "dig17"}

// RandNum draws a random member for the classes "randInt" / "randFloat".
func RandNum(class string, rng *rand.Rand) Num {
	if class == "randInt" {
		switch rng.Intn(4) {
		case 0:
			return in(int(rng.Uint64()))
		case 1:
			return in(rng.Intn(2000) - 1000)
		case 2:
			return in(int(rng.Int63()) >> uint(rng.Intn(63)))
		default:
			return in(-(int(rng.Int63()) >> uint(rng.Intn(63))))
		}
	}
	for {
		var f float64
		switch rng.Intn(5) {
		case 0:
			f = math.Float64frombits(rng.Uint64())
		case 1: // whole values k * 10^j
			f = float64(rng.Intn(2000)-1000) * math.Pow10(rng.Intn(25))
		case 2: // around the formatting switches
			base := []float64{1e6, 1e-6, 1e21, 1e-7}[rng.Intn(4)]
			f = base * (1 + float64(rng.Intn(21)-10)*1e-3)
			if rng.Intn(2) == 0 {
				f = math.Nextafter(base, float64(rng.Intn(2))*2*base)
			}
		case 3:
			f = float64(rng.Intn(1<<20)) / float64(int(1)<<uint(rng.Intn(20)))
			if rng.Intn(2) == 0 {
				f = -f
			}
		default:
			f = rng.NormFloat64() * math.Pow10(rng.Intn(40)-20)
		}
		if !math.IsNaN(f) && !math.IsInf(f, 0) {
			return fl(f)
		}
	}
}

// Member picks a member of a string class.
func StrMember(class string, pick int) string {
	m, ok := StrMembers[class]
	if !ok {
		panic("jsonx: unknown string class " + class)
	}
	return m[((pick%len(m))+len(m))%len(m)]
}

func NumMember(class string, pick int, rng *rand.Rand) Num {
	if class == "randInt" || class == "randFloat" {
		return RandNum(class, rng)
	}
	m, ok := NumMembers[class]
	if !ok {
		panic("jsonx: unknown number class " + class)
	}
	return m[((pick%len(m))+len(m))%len(m)]
}

// ---------------------------------------------------------------------------------------------
// Parse direction (C03): a string literal class is "class~spelling"; spellings:
//
//	raw    every character written as itself (only legal characters: no quote, backslash, C0)
//	short  the two-character escapes \" \\ \/ \b \f \n \r \t where they exist, raw otherwise
//	ulow   every character as \uXXXX with lower-case hex (surrogate pairs above U+FFFF)
//	uup    the same with upper-case hex
//	mixed  alternating raw/short/ulow/uup per character (seeded)
//
// ---------------------------------------------------------------------------------------------
var shortEsc = map[rune]string{'"': `\"`, '\\': `\\`, '/': `\/`, '\b': `\b`, '\f': `\f`, '\n': `\n`, '\r': `\r`, '\t': `\t`}

func uEsc(r rune, upper bool) string {
	f := `\u%04x`
	if upper {
		f = `\u%04X`
	}
	if r >= 0x10000 {
		r -= 0x10000
		return fmt.Sprintf(f, 0xd800+(r>>10)) + fmt.Sprintf(f, 0xdc00+(r&0x3ff))
	}
	return fmt.Sprintf(f, r)
}

func mustEscape(r rune) bool { return r == '"' || r == '\\' || r < 0x20 }

// SpellString writes the JSON string literal body (without the quotes) for value s.
func SpellString(s string, spelling string, rng *rand.Rand) string {
	var b strings.Builder
	for _, r := range s {
		sp := spelling
		if sp == "mixed" {
			sp = []string{"raw", "short", "ulow", "uup"}[rng.Intn(4)]
		}
		switch sp {
		case "raw":
			if mustEscape(r) {
				if e, ok := shortEsc[r]; ok {
					b.WriteString(e)
				} else {
					b.WriteString(uEsc(r, false))
				}
			} else {
				b.WriteRune(r)
			}
		case "short":
			if e, ok := shortEsc[r]; ok {
				b.WriteString(e)
			} else if mustEscape(r) {
				b.WriteString(uEsc(r, true))
			} else {
				b.WriteRune(r)
			}
		case "ulow":
			b.WriteString(uEsc(r, false))
		case "uup":
			b.WriteString(uEsc(r, true))
		default:
			panic("jsonx: unknown spelling " + spelling)
		}
	}
	return b.String()
}

func splitClass(c string) (string, string) {
	if i := strings.IndexByte(c, '~'); i >= 0 {
		return c[:i], c[i+1:]
	}
	return c, "raw"
}

// NumLits: number LITERAL classes (parse direction), each literal is valid RFC 8259.
var NumLits = map[string][]string{
	"int":     {"0", "7", "42", "-1", "-12", "1000000", "123456789012"},
	"negzero": {"-0"},
	"intmax":  {"9223372036854775807", "9223372036854775806", "9007199254740993"},
	"intmin":  {"-9223372036854775808", "-9223372036854775807"},
	"intover": {"9223372036854775808", "-9223372036854775809", "18446744073709551615", "18446744073709551616", "123456789012345678901234567890", "-99999999999999999999"},
	"frac":    {"1.5", "-0.25", "0.0", "-0.0", "3.14", "10.0", "0.1", "123.456", "1.0", "100.000"},
	"exp":     {"1e2", "1E2", "1e+2", "1E+2", "1e-2", "1E-2", "1.5e3", "-1.0E-2", "0e0", "0E+0", "-0e-0", "2e00", "1e010", "12E3", "1.25e+10"},
	"big":     {"1e308", "1.7976931348623157e308", "-1.7976931348623157E+308", "1e300", "123456789e290"},
	"tiny":    {"1e-300", "5e-324", "2.2250738585072014e-308", "4.9406564584124654e-324", "1e-320"},
	"round":   {"0.30000000000000004", "0.1000000000000000055511151231257827", "9007199254740993.0", "1.00000000000000011102230246251565404236316680908203125", "123456789012345678.0"},
}

var NumLitOrder = []string{"int", "negzero", "intmax", "intmin", "intover", "frac", "exp", "big", "tiny", "round"}

// NumberRule applies C03's rule to a literal: no fraction/exponent and fits int -> int, else float64.
func NumberRule(lit string) (Num, error) {
	if !strings.ContainsAny(lit, ".eE") {
		if i, err := strconv.ParseInt(lit, 10, strconv.IntSize); err == nil {
			return in(int(i)), nil
		}
	}
	f, err := strconv.ParseFloat(lit, 64)
	if err != nil {
		return Num{}, err
	}
	return fl(f), nil
}

// WsText: whitespace kinds.
var WsText = map[string]string{"SP": " ", "NL": "\n", "TAB": "\t", "CR": "\r", "CRLF": "\r\n", "MIX": " \n\t ", "SP3": "   ", "LS": "\u2028", "PS": "\u2029", "NBSP": "\u00a0"}

// PreText: tokens before the root bracket.
var PreText = map[string]string{"txt": "data=", "NL": "\n", "SP": " ", "bom": "\ufeff", "LS": "\u2028"}

// ValidUTF8 reports whether all members are valid UTF-8 (self-check of the tables).
func init() {
	for c, ms := range StrMembers {
		for _, m := range ms {
			if !utf8.ValidString(m) {
				panic("jsonx: class " + c + " has an ill-formed member")
			}
		}
	}
}
