package main

import (
	"bufio"
	"encoding/json"
	"flag"
	"fmt"
	"math/rand"
	"os"
	"runtime"
	"sort"
	"strings"
	"sync"
	"sync/atomic"
	"time"

	at "github.com/DanielSvub/anytype"
)

// async: schedules enumerated by TLC from spec/Async.tla enforced on the real goroutines (C15),
// free-running executions recorded for spec/AsyncTrace.tla, concurrent read-only calls.

type schedRec struct {
	N    int               `json:"n"`
	Mode string            `json:"mode"`
	Obs  []json.RawMessage `json:"obs"`
}

type ev struct {
	K string
	I int
}

func loadSchedules(path string) ([][]ev, []string, []int, error) {
	f, err := os.Open(path)
	if err != nil {
		return nil, nil, nil, err
	}
	defer f.Close()
	var out [][]ev
	var modes []string
	var ns []int
	rd := bufio.NewReaderSize(f, 1<<20)
	for {
		line, err := rd.ReadString('\n')
		if strings.HasPrefix(line, `"{`) {
			var inner string
			if e := json.Unmarshal([]byte(strings.TrimRight(line, "\r\n")), &inner); e != nil {
				return nil, nil, nil, e
			}
			var r schedRec
			if e := json.Unmarshal([]byte(inner), &r); e != nil {
				return nil, nil, nil, e
			}
			var s []ev
			for _, o := range r.Obs {
				var parts []json.RawMessage
				json.Unmarshal(o, &parts)
				var e ev
				json.Unmarshal(parts[0], &e.K)
				json.Unmarshal(parts[1], &e.I)
				s = append(s, e)
			}
			out = append(out, s)
			modes = append(modes, r.Mode)
			ns = append(ns, r.N)
		}
		if err != nil {
			break
		}
	}
	return out, modes, ns, nil
}

// gate set of one enforced run
type gateSet struct {
	site    string
	hold    map[any]chan struct{} // released to let the worker proceed past the hook
	entered map[any]chan struct{}
	goRet   map[any]chan struct{}
	exiting map[any]chan struct{}
}

var curGates atomic.Value // *gateSet

func installGateHook() {
	at.VerifGateHook = func(site string, id any) {
		g, _ := curGates.Load().(*gateSet)
		if g == nil || g.site != site {
			return
		}
		if ch, ok := g.hold[id]; ok {
			<-ch
		}
	}
}

type asyncResult struct {
	infeasible bool
	err        error
}

// stepTimeout is how long a released callback may take to show up at the next gate before the schedule counts as
// one the implementation cannot follow. It starts at 3 s; when an implementation evidently restricts the overlap of
// callbacks (a run of infeasible schedules for one method) it drops to 250 ms for that method, which only costs
// coverage on a loaded machine (infeasible schedules are never judged).
var stepTimeout = 3 * time.Second

func waitCh(ch chan struct{}, d time.Duration) bool {
	select {
	case <-ch:
		return true
	case <-time.After(d):
		return false
	}
}

// enforce runs one schedule on one container kind ("list"/"object") and mode ("ForEach"/"Map").
func enforce(kind, mode string, n int, sched []ev, grace time.Duration) asyncResult {
	ids := make([]any, n+1) // 1-based: index (list) or key (object)
	vals := make([]any, n+1)
	var l at.List
	var o at.Object
	if kind == "list" {
		l = at.NewList()
		for i := 1; i <= n; i++ {
			ids[i] = i - 1
			vals[i] = fmt.Sprintf("v%d", i)
			l.Add(vals[i])
		}
	} else {
		o = at.NewObject()
		for i := 1; i <= n; i++ {
			ids[i] = fmt.Sprintf("key%d", i)
			vals[i] = i * 10
			o.Set(ids[i].(string), vals[i])
		}
	}
	g := &gateSet{site: kind + "." + mode + "Async", hold: map[any]chan struct{}{}, entered: map[any]chan struct{}{}, goRet: map[any]chan struct{}{}, exiting: map[any]chan struct{}{}}
	for i := 1; i <= n; i++ {
		g.hold[ids[i]] = make(chan struct{})
		g.entered[ids[i]] = make(chan struct{}, 1)
		g.goRet[ids[i]] = make(chan struct{})
		g.exiting[ids[i]] = make(chan struct{}, 1)
	}
	curGates.Store(g)
	defer curGates.Store((*gateSet)(nil))
	var mu sync.Mutex
	type call struct {
		id any
		v  any
	}
	var calls []call
	var returnedFlag int32
	var lateCallback int32
	body := func(id any, v any) {
		mu.Lock()
		calls = append(calls, call{id, v})
		mu.Unlock()
		if atomic.LoadInt32(&returnedFlag) == 1 {
			atomic.StoreInt32(&lateCallback, 1)
		}
		select {
		case g.entered[id] <- struct{}{}:
		default:
		}
		if ch, ok := g.goRet[id]; ok {
			<-ch
		}
		if atomic.LoadInt32(&returnedFlag) == 1 {
			atomic.StoreInt32(&lateCallback, 1)
		}
		select {
		case g.exiting[id] <- struct{}{}:
		default:
		}
	}
	done := make(chan struct{})
	var ret any
	var panicV any
	go func() {
		defer close(done)
		defer func() { panicV = recover() }()
		switch {
		case kind == "list" && mode == "ForEach":
			ret = l.ForEachAsync(func(i int, v any) { body(i, v) })
		case kind == "list" && mode == "Map":
			ret = l.MapAsync(func(i int, v any) any { body(i, v); return fmt.Sprintf("%d=%v", i, v) })
		case kind == "object" && mode == "ForEach":
			ret = o.ForEachAsync(func(k string, v any) { body(k, v) })
		default:
			ret = o.MapAsync(func(k string, v any) any { body(k, v); return fmt.Sprintf("%s=%v", k, v) })
		}
		atomic.StoreInt32(&returnedFlag, 1)
	}()
	released := map[any]bool{}
	retReleased := map[any]bool{}
	cleanup := func() {
		for i := 1; i <= n; i++ {
			if !released[ids[i]] {
				close(g.hold[ids[i]])
				released[ids[i]] = true
			}
			if !retReleased[ids[i]] {
				close(g.goRet[ids[i]])
				retReleased[ids[i]] = true
			}
		}
		waitCh(done, 5*time.Second)
	}
	early := func(at string) error {
		select {
		case <-done:
			if panicV != nil {
				return fmt.Errorf("%s.%sAsync panicked: %v", kind, mode, panicV)
			}
			return fmt.Errorf("%s.%sAsync returned while callbacks were still pending (%s, schedule %v)", kind, mode, at, sched)
		default:
			return nil
		}
	}
	rets := 0
	for si, e := range sched {
		switch e.K {
		case "c":
			if err := early(fmt.Sprintf("before callback %d was entered", e.I)); err != nil {
				cleanup()
				return asyncResult{err: err}
			}
			id := ids[e.I]
			close(g.hold[id])
			released[id] = true
			if !waitCh(g.entered[id], stepTimeout) {
				// the implementation cannot follow this schedule (e.g. it serialises callbacks): not judged
				cleanup()
				return asyncResult{infeasible: true}
			}
		case "r":
			rets++
			if rets == n {
				// the last callback is about to return: give an early return the chance to show
				time.Sleep(grace)
			}
			if err := early(fmt.Sprintf("before callback %d returned", e.I)); err != nil {
				cleanup()
				return asyncResult{err: err}
			}
			id := ids[e.I]
			close(g.goRet[id])
			retReleased[id] = true
			if !waitCh(g.exiting[id], stepTimeout) {
				cleanup()
				return asyncResult{infeasible: true}
			}
		case "R":
			if si != len(sched)-1 {
				cleanup()
				return asyncResult{err: fmt.Errorf("ORACLE: schedule has events after the return: %v", sched)}
			}
			if !waitCh(done, 10*time.Second) {
				cleanup()
				return asyncResult{err: fmt.Errorf("%s.%sAsync did not return within 10 s after every callback had returned (schedule %v)", kind, mode, sched)}
			}
		}
	}
	if n == 0 {
		if !waitCh(done, 10*time.Second) {
			return asyncResult{err: fmt.Errorf("%s.%sAsync on an empty container did not return", kind, mode)}
		}
	}
	if panicV != nil {
		return asyncResult{err: fmt.Errorf("%s.%sAsync panicked: %v", kind, mode, panicV)}
	}
	if atomic.LoadInt32(&lateCallback) == 1 {
		return asyncResult{err: fmt.Errorf("%s.%sAsync: a callback was still running after the call had returned (schedule %v)", kind, mode, sched)}
	}
	// exactly once, with the matching pair
	mu.Lock()
	defer mu.Unlock()
	if len(calls) != n {
		return asyncResult{err: fmt.Errorf("%s.%sAsync made %d callback calls for %d elements: %v", kind, mode, len(calls), n, calls)}
	}
	seen := map[any]bool{}
	for _, c := range calls {
		if seen[c.id] {
			return asyncResult{err: fmt.Errorf("%s.%sAsync called the function twice for %v", kind, mode, c.id)}
		}
		seen[c.id] = true
		ok := false
		for i := 1; i <= n; i++ {
			if ids[i] == c.id && vals[i] == c.v {
				ok = true
			}
		}
		if !ok {
			return asyncResult{err: fmt.Errorf("%s.%sAsync passed the pair (%v, %v) which is not an element of the container", kind, mode, c.id, c.v)}
		}
	}
	// return values
	switch {
	case kind == "list" && mode == "ForEach":
		if ret != any(l) {
			return asyncResult{err: fmt.Errorf("list.ForEachAsync did not return the receiver")}
		}
	case kind == "object" && mode == "ForEach":
		if ret != any(o) {
			return asyncResult{err: fmt.Errorf("object.ForEachAsync did not return the receiver")}
		}
	case kind == "list":
		want := l.Map(func(i int, v any) any { return fmt.Sprintf("%d=%v", i, v) })
		if got, ok := ret.(at.List); !ok || !got.Equals(want) || !want.Equals(got) {
			return asyncResult{err: fmt.Errorf("list.MapAsync = %v, Map = %s", ret, want.String())}
		}
	default:
		want := o.Map(func(k string, v any) any { return fmt.Sprintf("%s=%v", k, v) })
		if got, ok := ret.(at.Object); !ok || !got.Equals(want) || !want.Equals(got) {
			return asyncResult{err: fmt.Errorf("object.MapAsync = %v, Map = %s", ret, want.String())}
		}
	}
	return asyncResult{}
}

// mapResult: a pure function with results of several kinds, nil among them
func mapResult(i int, v any) any {
	switch i % 4 {
	case 1:
		return nil
	case 2:
		return fmt.Sprintf("s%d", i)
	case 3:
		return float64(i) / 2
	}
	return v.(int) + i
}

// freeRun executes one async call without gates and records the observable events.
func freeRun(kind, mode string, n int, rng *rand.Rand, w *bufio.Writer, wmu *sync.Mutex) error {
	var l at.List
	var o at.Object
	keys := make([]string, n)
	if kind == "list" {
		l = at.NewList()
		for i := 0; i < n; i++ {
			l.Add(i * 3)
		}
	} else {
		o = at.NewObject()
		for i := 0; i < n; i++ {
			keys[i] = fmt.Sprintf("k%d", i)
			o.Set(keys[i], i*3)
		}
	}
	idx := map[string]int{}
	for i, k := range keys {
		idx[k] = i
	}
	var mu sync.Mutex
	var events []ev
	counts := make([]int, n)
	var bad error
	yield := make([]int, n)
	for i := range yield {
		yield[i] = rng.Intn(4)
	}
	body := func(i int, v any) {
		mu.Lock()
		events = append(events, ev{"c", i + 1})
		if i < 0 || i >= n {
			bad = fmt.Errorf("callback for a position %d outside the container", i)
		} else {
			counts[i]++
			if v != i*3 {
				bad = fmt.Errorf("callback %d received value %v, want %d", i, v, i*3)
			}
		}
		mu.Unlock()
		if i >= 0 && i < n {
			for k := 0; k < yield[i]; k++ {
				runtime.Gosched()
			}
		}
		mu.Lock()
		events = append(events, ev{"r", i + 1})
		mu.Unlock()
	}
	// a call just before, on the same goroutine, whose every result is a non-nil value: whatever scratch space an
	// implementation recycles between calls is dirty when the call under test (some results nil) runs
	if mode == "Map" && n > 0 {
		if kind == "list" {
			warm := l.MapAsync(func(i int, v any) any { return fmt.Sprintf("stale%d", i) })
			if want := l.Map(func(i int, v any) any { return fmt.Sprintf("stale%d", i) }); !warm.Equals(want) {
				return fmt.Errorf("list.MapAsync n=%d differs from Map: %s vs %s", n, warm.String(), want.String())
			}
		} else {
			warm := o.MapAsync(func(k string, v any) any { return "stale" + k })
			if want := o.Map(func(k string, v any) any { return "stale" + k }); !warm.Equals(want) {
				return fmt.Errorf("object.MapAsync n=%d differs from Map", n)
			}
		}
	}
	var ret any
	switch {
	case kind == "list" && mode == "ForEach":
		ret = l.ForEachAsync(func(i int, v any) { body(i, v) })
	case kind == "list":
		ret = l.MapAsync(func(i int, v any) any { body(i, v); return mapResult(i, v) })
	case mode == "ForEach":
		ret = o.ForEachAsync(func(k string, v any) { body(idx[k], v) })
	default:
		ret = o.MapAsync(func(k string, v any) any { body(idx[k], v); return mapResult(idx[k], v) })
	}
	mu.Lock()
	events = append(events, ev{"R", 0})
	evs := append([]ev(nil), events...)
	mu.Unlock()
	// record the trace for TLC
	wmu.Lock()
	fmt.Fprintf(w, "{\"e\":\"reset\",\"i\":%d}\n", n)
	for _, e := range evs {
		fmt.Fprintf(w, "{\"e\":%q,\"i\":%d}\n", e.K, e.I)
	}
	wmu.Unlock()
	if bad != nil {
		return fmt.Errorf("%s.%sAsync n=%d: %v", kind, mode, n, bad)
	}
	for i, c := range counts {
		if c != 1 {
			return fmt.Errorf("%s.%sAsync n=%d GOMAXPROCS=%d: the function was called %d times for element %d", kind, mode, n, runtime.GOMAXPROCS(0), c, i)
		}
	}
	switch {
	case kind == "list" && mode == "Map":
		want := l.Map(func(i int, v any) any { return mapResult(i, v) })
		if got, ok := ret.(at.List); !ok || !got.Equals(want) || !want.Equals(got) || got.String() != want.String() {
			return fmt.Errorf("list.MapAsync n=%d GOMAXPROCS=%d differs from Map: %v vs %s", n, runtime.GOMAXPROCS(0), ret, want.String())
		}
	case kind == "object" && mode == "Map":
		want := o.Map(func(k string, v any) any { return mapResult(idx[k], v) })
		if got, ok := ret.(at.Object); !ok || !got.Equals(want) || !want.Equals(got) {
			return fmt.Errorf("object.MapAsync n=%d differs from Map", n)
		}
	case kind == "list":
		if ret != any(l) {
			return fmt.Errorf("list.ForEachAsync did not return the receiver")
		}
	default:
		if ret != any(o) {
			return fmt.Errorf("object.ForEachAsync did not return the receiver")
		}
	}
	return nil
}

// ---- concurrent read-only calls -----------------------------------------------------------------

type reader struct {
	name string
	f    func(l at.List, o at.Object) string
}

func readers() []reader {
	s := fmt.Sprint
	return []reader{
		{"List.String", func(l at.List, o at.Object) string { return l.String() }},
		{"List.FormatString", func(l at.List, o at.Object) string { return l.FormatString(2) }},
		{"List.Count", func(l at.List, o at.Object) string { return s(l.Count()) }},
		{"List.Empty", func(l at.List, o at.Object) string { return s(l.Empty()) }},
		{"List.Get", func(l at.List, o at.Object) string { return s(l.Get(0) != nil) }},
		{"List.TypeOf", func(l at.List, o at.Object) string { return s(l.TypeOf(1)) }},
		{"List.Clone", func(l at.List, o at.Object) string { return l.Clone().String() }},
		{"List.Equals", func(l at.List, o at.Object) string { return s(l.Equals(l)) }},
		{"List.SubList", func(l at.List, o at.Object) string { return l.SubList(1, 0).String() }},
		{"List.Concat", func(l at.List, o at.Object) string { return l.Concat(l).String() }},
		{"List.Slice", func(l at.List, o at.Object) string { return s(len(l.Slice())) }},
		{"List.NativeSlice", func(l at.List, o at.Object) string { return s(l.NativeSlice()) }},
		{"List.IntSlice", func(l at.List, o at.Object) string { return s(l.IntSlice()) }},
		{"List.Contains", func(l at.List, o at.Object) string { return s(l.Contains(2)) }},
		{"List.IndexOf", func(l at.List, o at.Object) string { return s(l.IndexOf("b")) }},
		{"List.Filter", func(l at.List, o at.Object) string {
			return l.Filter(func(v any) bool { _, ok := v.(int); return ok }).String()
		}},
		{"List.Map", func(l at.List, o at.Object) string {
			return s(l.Map(func(i int, v any) any { return i }).Count())
		}},
		{"List.MapAsync", func(l at.List, o at.Object) string {
			return s(l.MapAsync(func(i int, v any) any { return i }).String())
		}},
		{"List.ForEachAsync", func(l at.List, o at.Object) string {
			var c int32
			l.ForEachAsync(func(int, any) { atomic.AddInt32(&c, 1) })
			return s(c)
		}},
		{"List.ForEach", func(l at.List, o at.Object) string { c := 0; l.ForEach(func(int, any) { c++ }); return s(c) }},
		{"List.Reduce", func(l at.List, o at.Object) string { return s(l.Reduce(0, func(a, b any) any { return a.(int) + 1 })) }},
		{"List.Sum", func(l at.List, o at.Object) string { return s(l.IntSum(), l.IntMax(), l.AllInts(), l.AllNumeric()) }},
		{"List.GetTF", func(l at.List, o at.Object) string { return s(l.TypeOfTF("#0"), l.TypeOfTF("#9.x")) }},
		{"Object.String", func(l at.List, o at.Object) string { return s(len(o.String())) }},
		{"Object.FormatString", func(l at.List, o at.Object) string { return s(len(o.FormatString(1))) }},
		{"Object.Count", func(l at.List, o at.Object) string { return s(o.Count(), o.Empty()) }},
		{"Object.Get", func(l at.List, o at.Object) string { return s(o.Get("a"), o.TypeOf("n"), o.KeyExists("zz")) }},
		{"Object.Clone", func(l at.List, o at.Object) string { return s(o.Clone().Equals(o)) }},
		{"Object.Equals", func(l at.List, o at.Object) string { return s(o.Equals(o)) }},
		{"Object.Keys", func(l at.List, o at.Object) string { k := o.Keys().StringSlice(); sort.Strings(k); return s(k) }},
		{"Object.Values", func(l at.List, o at.Object) string { return s(o.Values().Count()) }},
		{"Object.Dict", func(l at.List, o at.Object) string { return s(len(o.Dict()), len(o.NativeDict())) }},
		{"Object.Merge", func(l at.List, o at.Object) string { return s(o.Merge(o).Equals(o)) }},
		{"Object.Pluck", func(l at.List, o at.Object) string { return o.Pluck("a").String() }},
		{"Object.Contains", func(l at.List, o at.Object) string { return s(o.Contains(1), o.KeyOf(1)) }},
		{"Object.Map", func(l at.List, o at.Object) string {
			return s(o.Map(func(k string, v any) any { return k }).Count())
		}},
		{"Object.MapAsync", func(l at.List, o at.Object) string {
			return s(o.MapAsync(func(k string, v any) any { return k }).Count())
		}},
		{"Object.ForEachAsync", func(l at.List, o at.Object) string {
			var c int32
			o.ForEachAsync(func(string, any) { atomic.AddInt32(&c, 1) })
			return s(c)
		}},
		{"Object.GetTF", func(l at.List, o at.Object) string { return s(o.TypeOfTF(".n.x"), o.GetTF(".l#0")) }},
	}
}

// shared containers in several internal conditions; they are NOT touched between construction and the concurrent calls
func sharedContainers(cond int) (at.List, at.Object) {
	inner := at.NewList(1, 2)
	nested := at.NewObject("x", 1)
	// strings and keys that need escaping and non-ASCII ones (serialisers with shared scratch space)
	base := at.NewList(7, "b\t\"q\" \\ ž😀", 2, inner, nested, 2.5, nil, true, "\u0001ctl", "plain")
	o := at.NewObject("a", 1, "n", nested, "l", at.NewList(5, 6), "s", "tab\there ž", "z", nil, "k\n😀", "v\"q\"", "é", 2)
	// enough fields and elements for implementations that treat big containers differently (caches built on first use)
	for i := 0; i < 40; i++ {
		o.Set(fmt.Sprintf("f%02d\t", i), 1000+i)
		base.Add(fmt.Sprintf("e%02d", i))
	}
	switch cond {
	case 1: // spare capacity after Add/Pop
		base.Add(1, 2, 3)
		base.Pop()
		base.Pop()
		base.Pop()
		o.Set("tmp", 1)
		o.Unset("tmp")
	case 2: // fresh derivations, never used before
		return base.SubList(0, 0), o.Pluck("a", "n", "l", "s", "z")
	case 3:
		return base.Concat(at.NewList()), o.Merge(at.NewObject())
	case 4:
		return base.Clone(), o.Clone()
	case 5:
		l2, _ := at.ParseList(base.String())
		o2, _ := at.ParseObject(o.String())
		return l2, o2
	case 6:
		return at.NewListFrom(base.Slice()), at.NewObjectFrom(o.Dict())
	case 7:
		return base.Filter(func(any) bool { return true }), o.Map(func(_ string, v any) any { return v })
	}
	return base, o
}

func cmdAsync(args []string) int {
	fs := flag.NewFlagSet("async", flag.ExitOnError)
	in := fs.String("in", "", "TLC outputs with schedules (comma separated)")
	prop := fs.String("prop", "C15", "property id")
	seed := fs.Int64("seed", 1, "seed")
	graceMs := fs.Int("grace", 2, "grace period in ms before the last callback is released")
	traceOut := fs.String("trace", "", "ndjson file for recorded free-running executions")
	freeRuns := fs.Int("free", 200, "free-running executions")
	triples := fs.Bool("triples", false, "concurrent readers: triples instead of pairs")
	reps := fs.Int("reps", 3, "repetitions per reader combination")
	out := fs.String("out", "", "summary file")
	replayDir := fs.String("replaydir", "", "replay dir")
	fs.Parse(args)
	start := time.Now()
	st := newDocStats()
	installGateHook()
	fail := func(check, input string, err error) {
		msg := err.Error()
		sig := msg
		if len(sig) > 90 {
			sig = sig[:90]
		}
		st.fail(&docViolation{Property: *prop, Message: msg, Sig: check + ": " + sig, Check: check, Input: input, Seed: *seed})
	}
	var enforced, infeasible int64
	infRun := map[string]int{}
	oldProcs := runtime.GOMAXPROCS(0)
	for _, file := range strings.Split(*in, ",") {
		if file == "" {
			continue
		}
		scheds, modes, ns, err := loadSchedules(file)
		if err != nil || len(scheds) == 0 {
			fmt.Fprintln(os.Stderr, "async: cannot load schedules from", file, err)
			return 2
		}
		for si, sched := range scheds {
			if st.nviol() > 0 {
				break
			}
			for _, kind := range []string{"list", "object"} {
				for _, procs := range []int{1, 2, 16} {
					// all GOMAXPROCS values on a thinned set, every schedule under the default
					if procs != 16 && si%5 != 0 {
						continue
					}
					runtime.GOMAXPROCS(procs)
					stepTimeout = 3 * time.Second
					if infRun[kind+modes[si]] >= 4 {
						stepTimeout = 250 * time.Millisecond
					}
					res := enforce(kind, modes[si], ns[si], sched, time.Duration(*graceMs)*time.Millisecond)
					if res.infeasible {
						infRun[kind+modes[si]]++
					} else if res.err == nil && stepTimeout > time.Second {
						infRun[kind+modes[si]] = 0
					}
					atomic.AddInt64(&st.evals, 1)
					if res.err != nil {
						if strings.HasPrefix(res.err.Error(), "ORACLE") {
							fmt.Fprintln(os.Stderr, "async:", res.err)
							return 2
						}
						fail("schedule", fmt.Sprintf("%s %s n=%d GOMAXPROCS=%d %v", kind, modes[si], ns[si], procs, sched), res.err)
					} else if res.infeasible {
						infeasible++
					} else {
						enforced++
						st.seen(fmt.Sprintf("%s|%s|%v", kind, modes[si], sched))
					}
					if si%211 == 0 && kind == "list" && procs == 16 {
						st.sample(fmt.Sprintf("%s.%sAsync n=%d schedule %v", kind, modes[si], ns[si], sched))
					}
				}
			}
		}
	}
	runtime.GOMAXPROCS(oldProcs)
	at.VerifGateHook = nil
	if enforced == 0 && infeasible > 0 {
		fmt.Fprintln(os.Stderr, "async: no schedule could be enforced on the implementation: no verdict")
		return 2
	}
	// free-running executions (recorded for TLC)
	var free int64
	if *freeRuns > 0 && st.nviol() == 0 {
		var w *bufio.Writer
		var f *os.File
		if *traceOut != "" {
			f, _ = os.Create(*traceOut)
			w = bufio.NewWriter(f)
		} else {
			w = bufio.NewWriter(os.Stderr)
		}
		var wmu sync.Mutex
		sizes := []int{0, 1, 2, 3, 5, 8, 16, 63, 64, 65, 100, 129, 257, 600, 1030}
		rng := rand.New(rand.NewSource(*seed))
		for r := 0; r < *freeRuns && st.nviol() == 0; r++ {
			n := sizes[r%len(sizes)]
			procs := []int{1, 2, 3, 4, 7, 16}[(r/len(sizes))%6]
			runtime.GOMAXPROCS(procs)
			kind := []string{"list", "object"}[r%2]
			mode := []string{"ForEach", "Map"}[(r/2)%2]
			errCh := make(chan error, 1)
			sub := rand.New(rand.NewSource(rng.Int63()))
			go func() { errCh <- freeRun(kind, mode, n, sub, w, &wmu) }()
			select {
			case err := <-errCh:
				if err != nil {
					fail("free", fmt.Sprintf("%s %s n=%d GOMAXPROCS=%d", kind, mode, n, procs), err)
				}
			case <-time.After(60 * time.Second):
				fail("free", fmt.Sprintf("%s %s n=%d GOMAXPROCS=%d", kind, mode, n, procs),
					fmt.Errorf("%s.%sAsync over %d elements did not return within 60 s with callbacks that only yield (GOMAXPROCS=%d)", kind, mode, n, procs))
			}
			free++
			atomic.AddInt64(&st.evals, 1)
			st.seen(fmt.Sprintf("free|%s|%s|%d|%d", kind, mode, n, procs))
		}
		runtime.GOMAXPROCS(oldProcs)
		w.Flush()
		if f != nil {
			f.Close()
		}
	}
	// nested async calls: every outer callback runs an inner ForEachAsync / MapAsync while many others are in flight
	if st.nviol() == 0 {
		for _, outerN := range []int{3, 130, 400} {
			outerN := outerN
			doneCh := make(chan error, 1)
			go func() {
				outer := at.NewList()
				for i := 0; i < outerN; i++ {
					outer.Add(i)
				}
				inner := at.NewList(1, 2, 3)
				innerO := at.NewObject("a", 1, "b", 2)
				var total int64
				outer.ForEachAsync(func(i int, _ any) {
					time.Sleep(5 * time.Millisecond)
					if i%2 == 0 {
						inner.ForEachAsync(func(int, any) { atomic.AddInt64(&total, 1) })
					} else {
						m := innerO.MapAsync(func(k string, v any) any { return v })
						atomic.AddInt64(&total, int64(m.Count()))
					}
				})
				want := int64((outerN+1)/2*3 + outerN/2*2)
				if total != want {
					doneCh <- fmt.Errorf("nested async calls: %d inner callbacks ran, want %d", total, want)
					return
				}
				doneCh <- nil
			}()
			select {
			case err := <-doneCh:
				atomic.AddInt64(&st.evals, 1)
				if err != nil {
					fail("nested", fmt.Sprintf("outer n=%d", outerN), err)
				}
			case <-time.After(30 * time.Second):
				fail("nested", fmt.Sprintf("outer n=%d", outerN), fmt.Errorf("ForEachAsync over %d elements whose callbacks make nested ForEachAsync/MapAsync calls did not return within 30 s (callbacks never all returned)", outerN))
			}
			if st.nviol() > 0 {
				break
			}
		}
	}
	// concurrent read-only calls on a shared, untouched container
	var combos int64
	if st.nviol() == 0 {
		rs := readers()
		k := 2
		if *triples {
			k = 3
		}
		rng := rand.New(rand.NewSource(*seed + 7))
		var combosList [][]int
		for a := 0; a < len(rs); a++ {
			for b := a; b < len(rs); b++ {
				if k == 2 {
					combosList = append(combosList, []int{a, b})
				} else {
					for c := b; c < len(rs); c += 1 + rng.Intn(4) {
						combosList = append(combosList, []int{a, b, c})
					}
				}
			}
		}
		for ci, combo := range combosList {
			if st.nviol() > 0 {
				break
			}
			nrep := *reps
			if combo[0] == combo[1] {
				nrep = 8 // the same method twice: every container condition
			}
			for rep := 0; rep < nrep; rep++ {
				cond := (ci + rep) % 8
				l, o := sharedContainers(cond)
				results := make([]string, len(combo))
				panics := make([]any, len(combo))
				var wg sync.WaitGroup
				startCh := make(chan struct{})
				for gi, ri := range combo {
					wg.Add(1)
					go func(gi, ri int) {
						defer wg.Done()
						defer func() { panics[gi] = recover() }()
						<-startCh
						results[gi] = rs[ri].f(l, o)
					}(gi, ri)
				}
				close(startCh)
				wg.Wait()
				combos++
				atomic.AddInt64(&st.evals, 1)
				for gi, ri := range combo {
					seq := rs[ri].f(l, o)
					if panics[gi] != nil || results[gi] != seq {
						names := []string{}
						for _, x := range combo {
							names = append(names, rs[x].name)
						}
						fail("readers", strings.Join(names, " || "), fmt.Errorf("concurrent %s returned %q (panic %v), sequentially %q (container condition %d, together with %v)", rs[ri].name, results[gi], panics[gi], seq, cond, names))
						break
					}
				}
				st.seen(fmt.Sprintf("readers|%v|%d", combo, cond))
			}
		}
	}
	return finishDocs(*prop, st, *out, *replayDir, map[string]any{"schedules_enforced": enforced, "schedules_infeasible": infeasible, "free_runs": free,
		"reader_combinations": combos, "wall_s": time.Since(start).Seconds()})
}

func init() {
	extraCmds["async"] = cmdAsync
}
