package main

import (
	"bufio"
	"encoding/json"
	"flag"
	"fmt"
	"math"
	"math/rand"
	"os"
	"sort"

	at "github.com/DanielSvub/anytype"

	"verif/harness/conc"
	"verif/harness/heapx"
	"verif/harness/model"
)

// drive: seeded random programs on the real library, logged for spec/HeapTrace.tla (R3).

type driver struct {
	rng     *rand.Rand
	real    *heapx.Real
	nkeys   int
	next    int
	cur     model.Heap
	big     bool
	bigObj  bool
	pending *model.Op
	maxList int
	w       *bufio.Writer
	steps   int
	alien   int
	dead    bool // the real heap has become cyclic (only a defect can do that): nothing recursive may be called any more
	// slice headers of the built-in lists (hook VerifSpine), logged as deltas for spec/SliceTrace.tla
	sw     *bufio.Writer
	spine  map[int][3]int
	arrIDs map[uintptr]int
}

// logSpine writes the headers that are new or changed since the previous step
func (d *driver) logSpine(o model.Op, panicked bool) {
	if d.sw == nil {
		return
	}
	changed := [][4]int{}
	for id := 1; id < d.next; id++ {
		l, ok := d.real.Fwd[id].(at.List)
		if !ok {
			continue
		}
		n, c, ptr := at.VerifSpine(l)
		if n < 0 {
			continue // a derived list: the header sits in the embedded value, which the harness does not hold
		}
		arr := 0
		if c > 0 {
			arr, ok = d.arrIDs[ptr]
			if !ok {
				arr = len(d.arrIDs) + 1
				d.arrIDs[ptr] = arr
			}
		}
		h := [3]int{n, c, arr}
		if old, known := d.spine[id]; !known || old != h {
			d.spine[id] = h
			changed = append(changed, [4]int{id, n, c, arr})
		}
	}
	k := len(o.Vs)
	if o.Op == "Delete" {
		k = len(o.Ks)
	}
	b, _ := json.Marshal(map[string]any{"t": "op", "op": o.Op, "r": o.R, "i": o.I, "k": k, "p": panicked, "sp": changed})
	d.sw.Write(b)
	d.sw.WriteByte('\n')
}

// driverTable: concretisation of a recorded program (gen 0: tree-form safe keys, 1: generated keys of big objects,
// 2: look-alike strings). The extreme float tokens of the driver's value range stand for the infinities.
func driverTable(gen int, seed int64, nkeys int) *conc.Table {
	var t *conc.Table
	switch gen {
	case 1:
		t = conc.NewGen(nkeys)
	case 2:
		t = conc.New("long", seed, nkeys)
	default:
		t = conc.NewTF(seed, nkeys)
	}
	// the upper int tokens of the driver's range stand for values at the edges of the 8- and 16-bit ranges
	t.WithInt(5, 127).WithInt(6, 128).WithInt(7, 255).WithInt(8, 256).WithInt(9, 32768)
	return t.WithFloat(-4, math.Inf(-1)).WithFloat(4, math.Inf(1))
}

func (d *driver) bindNew(x any) int {
	if id, ok := d.real.Rev[x]; ok {
		return id
	}
	id := d.next
	d.next++
	d.real.Fwd[id] = x
	d.real.Rev[x] = id
	return id
}

func isContainer(x any) bool {
	switch x.(type) {
	case at.List, at.Object:
		return true
	}
	return false
}

// children of a real container in the order the specification walks them
func (d *driver) children(x any) (out []any) {
	defer func() { recover() }()
	switch c := x.(type) {
	case at.List:
		for i := 0; i < c.Count(); i++ {
			out = append(out, c.Get(i))
		}
	case at.Object:
		for k := 1; k <= d.nkeys; k++ {
			key := d.real.T.Str(k)
			if c.KeyExists(key) {
				out = append(out, c.Get(key))
			}
		}
	}
	return out
}

// postorder binds the unknown containers below x children first (the order of CopyVal in Heap.tla)
func (d *driver) postorder(x any, depth int) {
	if !isContainer(x) || depth > 100000 {
		return
	}
	if _, ok := d.real.Rev[x]; ok {
		return
	}
	for _, ch := range d.children(x) {
		d.postorder(ch, depth+1)
	}
	d.bindNew(x)
}

func (d *driver) valOf(x any) model.Val {
	if isContainer(x) {
		if id, ok := d.real.Rev[x]; ok {
			return model.Val{K: "ref", V: id}
		}
		d.alien++
		return model.Val{K: "alien", V: 0}
	}
	if v, ok := d.real.T.Abs(x); ok {
		return v
	}
	d.alien++
	return model.Val{K: "alien", V: 0}
}

// safeGet reads one slot; a panic of the library on a position inside the container is logged as an alien value
func (d *driver) safeGet(f func() any) (v model.Val) {
	defer func() {
		if e := recover(); e != nil {
			d.alien++
			v = model.Val{K: "alien", V: 1}
		}
	}()
	return d.valOf(f())
}

func (d *driver) project() model.Heap {
	h := make(model.Heap, d.next-1)
	for id := 1; id < d.next; id++ {
		switch c := d.real.Fwd[id].(type) {
		case at.List:
			cell := model.Cell{T: "L", E: make([]model.Val, 0, c.Count())}
			for i := 0; i < c.Count(); i++ {
				i := i
				cell.E = append(cell.E, d.safeGet(func() any { return c.Get(i) }))
			}
			h[id-1] = cell
		case at.Object:
			cell := model.Cell{T: "O", E: make([]model.Val, d.nkeys)}
			n := 0
			for k := 1; k <= d.nkeys; k++ {
				key := d.real.T.Str(k)
				if c.KeyExists(key) {
					cell.E[k-1] = d.safeGet(func() any { return c.Get(key) })
					n++
				} else {
					cell.E[k-1] = model.Val{K: "absent"}
				}
			}
			if n != c.Count() {
				cell.E[0] = model.Val{K: "alien", V: c.Count()}
				d.alien++
			}
			h[id-1] = cell
		case *heapx.GoSlice:
			cell := model.Cell{T: "GS", E: make([]model.Val, 0, len(c.S))}
			for _, e := range c.S {
				cell.E = append(cell.E, d.valOf(e))
			}
			h[id-1] = cell
		case *heapx.GoMap:
			cell := model.Cell{T: "GM", E: make([]model.Val, d.nkeys)}
			for k := 1; k <= d.nkeys; k++ {
				if e, ok := c.M[d.real.T.Str(k)]; ok {
					cell.E[k-1] = d.valOf(e)
				} else {
					cell.E[k-1] = model.Val{K: "absent"}
				}
			}
			h[id-1] = cell
		}
	}
	return h
}

func (d *driver) reach(id int, seen map[int]bool) {
	if seen[id] {
		return
	}
	seen[id] = true
	for _, v := range d.cur[id-1].E {
		if v.K == "ref" {
			d.reach(v.V, seen)
		}
	}
}

func (d *driver) ids(tag string) []int {
	var out []int
	for i, c := range d.cur {
		if c.T == tag {
			out = append(out, i+1)
		}
	}
	return out
}

func (d *driver) scalar() model.Val {
	switch d.rng.Intn(7) {
	case 0:
		return model.Val{K: "nil"}
	case 1:
		return model.Val{K: "bool", V: d.rng.Intn(2)}
	case 2, 3:
		return model.Val{K: "int", V: d.rng.Intn(10)}
	case 4:
		return model.Val{K: "float", V: d.rng.Intn(9) - 4}
	}
	return model.Val{K: "str", V: 1 + d.rng.Intn(d.nkeys)}
}

// value for storing into container r (0 = fresh container): a scalar or a container that keeps the heap acyclic
func (d *driver) value(r int) model.Val {
	if d.rng.Intn(3) == 0 {
		var cands []int
		var blocked map[int]bool
		if r > 0 {
			blocked = map[int]bool{}
			d.reach(r, blocked)
		}
		for i, c := range d.cur {
			if c.T != "L" && c.T != "O" {
				continue
			}
			id := i + 1
			if r > 0 {
				rs := map[int]bool{}
				d.reach(id, rs)
				clash := false
				for x := range rs {
					if blocked[x] {
						clash = true
					}
				}
				if clash {
					continue
				}
			}
			cands = append(cands, id)
		}
		if len(cands) > 0 {
			return model.Val{K: "ref", V: cands[d.rng.Intn(len(cands))]}
		}
	}
	return d.scalar()
}

func (d *driver) path(rootTag string) []model.Val {
	n := 1 + d.rng.Intn(3)
	p := make([]model.Val, n)
	tag := rootTag
	for i := range p {
		if tag == "O" {
			p[i] = model.Val{K: "key", V: 1 + d.rng.Intn(d.nkeys)}
		} else {
			p[i] = model.Val{K: "idx", V: d.rng.Intn(6)}
		}
		if d.rng.Intn(2) == 0 {
			tag = "O"
		} else {
			tag = "L"
		}
		if i+1 < n {
			// the next segment decides the kind; keep as chosen
			continue
		}
	}
	// fix segment kinds so that segment i+1's kind is what tag said: regenerate consistently
	tag = rootTag
	for i := range p {
		if tag == "O" {
			p[i] = model.Val{K: "key", V: 1 + d.rng.Intn(d.nkeys)}
		} else {
			p[i] = model.Val{K: "idx", V: d.rng.Intn(6)}
		}
		if d.rng.Intn(2) == 0 {
			tag = "O"
		} else {
			tag = "L"
		}
	}
	return p
}

// livePath walks the current heap from container r: a path of 1..3 segments that resolves (far indexes of long lists
// included), or — one time in five — leaves the structure at its last segment.
func (d *driver) livePath(r int) []model.Val {
	var p []model.Val
	cur := r
	for depth := 0; depth < 3; depth++ {
		c := d.cur[cur-1]
		var nxt model.Val
		miss := d.rng.Intn(5) == 0
		if c.T == "L" {
			n := len(c.E)
			i := 0
			switch {
			case miss:
				// just past the end, or a block further (writes pad with nil up to the index)
				i = n + []int{0, 1, 0, 1, 31, 32, 33, 64}[d.rng.Intn(8)]
			case n == 0:
				return p
			default:
				i = []int{n - 1, n / 2, d.rng.Intn(n), d.rng.Intn(n)}[d.rng.Intn(4)]
			}
			p = append(p, model.Val{K: "idx", V: i})
			if i < n {
				nxt = c.E[i]
			}
		} else {
			var present, absent []int
			for k, v := range c.E {
				if v.K == "absent" {
					absent = append(absent, k+1)
				} else {
					present = append(present, k+1)
				}
			}
			switch {
			case miss && len(absent) > 0:
				p = append(p, model.Val{K: "key", V: absent[d.rng.Intn(len(absent))]})
			case len(present) == 0:
				return p
			default:
				k := present[d.rng.Intn(len(present))]
				p = append(p, model.Val{K: "key", V: k})
				nxt = c.E[k-1]
			}
		}
		if nxt.K != "ref" || d.rng.Intn(3) == 0 {
			break
		}
		if t := d.cur[nxt.V-1].T; t != "L" && t != "O" {
			break
		}
		cur = nxt.V
	}
	return p
}

func (d *driver) sortDomain(id int) bool {
	e := d.cur[id-1].E
	if len(e) == 0 {
		return false
	}
	k := e[0].K
	if k != "str" && k != "int" && k != "float" {
		return true // panics, list unchanged
	}
	for _, v := range e {
		if v.K != k {
			return false
		}
	}
	return true
}

func (d *driver) pickOp() (model.Op, bool) {
	lists, objs := d.ids("L"), d.ids("O")
	if d.real.Derived > 0 && d.rng.Intn(4) > 0 {
		// derived mode is about derived values: deep copies leave many plain containers behind (the copies of nested
		// values), three operations in four go to receivers that are derived structs
		only := func(ids []int) []int {
			var out []int
			for _, id := range ids {
				if x := d.real.Fwd[id]; d.real.Inner(x) != x {
					out = append(out, id)
				}
			}
			if len(out) == 0 {
				return ids
			}
			return out
		}
		lists, objs = only(lists), only(objs)
	}
	none := model.Val{K: "none"}
	mk := func(op string, r int) model.Op { return model.Op{Op: op, R: r, V: none} }
	if d.pending != nil {
		o := *d.pending
		d.pending = nil
		return o, true
	}
	ctorOdds := 8
	if d.big {
		ctorOdds = 4
	}
	if len(lists)+len(objs) == 0 || (len(d.cur) < 12 && d.rng.Intn(ctorOdds) == 0) {
		pick := d.rng.Intn(4)
		if d.big && d.rng.Intn(2) == 0 {
			pick = 1
		}
		switch pick {
		case 0:
			o := mk("NewList", 0)
			for i := d.rng.Intn(4); i > 0; i-- {
				o.Vs = append(o.Vs, d.value(0))
			}
			return o, true
		case 1:
			o := mk("NewListOf", 0)
			o.V = d.value(0)
			o.I = []int{0, 1, 2, 3, 5}[d.rng.Intn(5)]
			if d.big {
				o.I = []int{33, 64, 100, 255, 256, 259, 300}[d.rng.Intn(7)]
			}
			return o, true
		default:
			o := mk("NewObject", 0)
			for i := d.rng.Intn(3); i > 0; i-- {
				o.Vs = append(o.Vs, model.Val{K: "str", V: 1 + d.rng.Intn(d.nkeys)}, d.value(0))
			}
			return o, true
		}
	}
	if d.rng.Intn(45) == 0 {
		return mk("Churn", 0), true
	}
	searchOdds := 16
	if d.big || d.bigObj {
		searchOdds = 7
	}
	if d.rng.Intn(searchOdds) == 0 {
		// search: IndexOf / Contains / KeyOf for a value the container holds (often more than once) or a random one
		all := append(append([]int{}, lists...), objs...)
		r := all[d.rng.Intn(len(all))]
		var present []model.Val
		for _, v := range d.cur[r-1].E {
			if v.K != "absent" && v.K != "alien" {
				present = append(present, v)
			}
		}
		v := d.scalar()
		if len(present) > 0 && d.rng.Intn(4) > 0 {
			v = present[d.rng.Intn(len(present))]
		}
		name := "Contains"
		if d.cur[r-1].T == "L" && d.rng.Intn(2) == 0 {
			name = "IndexOf"
		} else if d.cur[r-1].T == "O" && d.rng.Intn(2) == 0 && d.real.Derived == 0 {
			name = "KeyOf"
		}
		o := mk(name, r)
		o.V = v
		return o, true
	}
	if d.rng.Intn(12) == 0 {
		all := append(append([]int{}, lists...), objs...)
		r := all[d.rng.Intn(len(all))]
		switch d.rng.Intn(6) {
		case 4, 5:
			if p := d.livePath(r); len(p) > 0 {
				o := mk("GetTF", r)
				o.Vs = p
				return o, true
			}
			return mk("Text", r), true
		case 3:
			return mk("Text", r), true
		case 0:
			if d.real.Derived == 0 {
				same := lists
				if d.cur[r-1].T == "O" {
					same = objs
				}
				o := mk("Equals", r)
				o.J = same[d.rng.Intn(len(same))]
				return o, true
			}
		case 1:
			o := mk("ForEach", r)
			o.I = d.rng.Intn(9)
			return o, true
		}
		return mk("NativeCheck", r), true
	}
	useList := len(objs) == 0 || (len(lists) > 0 && d.rng.Intn(5) < 3)
	if useList {
		r := lists[d.rng.Intn(len(lists))]
		n := len(d.cur[r-1].E)
		idx := func(hi int) int {
			if d.rng.Intn(12) == 0 {
				return []int{-1, hi + 1, hi + 2}[d.rng.Intn(3)]
			}
			if hi <= 0 {
				return 0
			}
			switch d.rng.Intn(4) {
			case 0:
				return 0
			case 1:
				return hi - 1
			}
			return d.rng.Intn(hi)
		}
		switch c := d.rng.Intn(28); {
		case c < 6:
			if n >= d.maxList {
				return mk("Pop", r), true
			}
			o := mk("Add", r)
			for i := 1 + d.rng.Intn(3); i > 0; i-- {
				o.Vs = append(o.Vs, d.value(r))
			}
			return o, true
		case c < 8:
			if n >= d.maxList {
				return mk("Pop", r), true
			}
			o := mk("Insert", r)
			o.I = idx(n + 1)
			o.V = d.value(r)
			return o, true
		case c < 10:
			o := mk("Replace", r)
			o.I = idx(n)
			o.V = d.value(r)
			return o, true
		case c < 12:
			o := mk("Delete", r)
			o.Ks = []int{idx(n)}
			if n >= 2 && d.rng.Intn(4) == 0 {
				a, b := d.rng.Intn(n), d.rng.Intn(n)
				if a != b {
					o.Ks = []int{a, b}
				}
			}
			return o, true
		case c < 16:
			return mk("Pop", r), true
		case c < 17:
			return mk("Clear", r), true
		case c < 18:
			return mk("Reverse", r), true
		case c < 19:
			if d.sortDomain(r) {
				return mk("Sort", r), true
			}
			if n > 0 {
				return mk("SortAny", r), true
			}
			return mk("Reverse", r), true
		case c < 21:
			o := mk("SubList", r)
			o.I = idx(n)
			o.J = d.rng.Intn(2*n+3) - n - 1
			return o, true
		case c < 23:
			j := lists[d.rng.Intn(len(lists))]
			if n+len(d.cur[j-1].E) > d.maxList {
				return mk("Pop", r), true
			}
			if d.real.Derived > 0 {
				// Concat needs the built-in implementation as argument (outside C19's domain): take a copy instead
				return mk("SubList", r), true
			}
			o := mk("Concat", r)
			o.J = j
			return o, true
		case c < 25:
			return mk("Clone", r), true
		case c < 26:
			if d.rng.Intn(2) == 0 && n > 1 {
				// a prefix by a take-while predicate, then a write into that prefix of the receiver
				o := mk("FilterHead", r)
				o.I = 1 + d.rng.Intn(n-1)
				rep := mk("Replace", r)
				rep.I = d.rng.Intn(o.I)
				rep.V = d.scalar()
				d.pending = &rep
				return o, true
			}
			return mk([]string{"FilterAll", "MapId"}[d.rng.Intn(2)], r), true
		default:
			p := d.path("L")
			if lp := d.livePath(r); len(lp) > 0 && d.rng.Intn(2) == 0 {
				p = lp
			}
			if d.rng.Intn(3) == 0 {
				o := mk("UnsetTF", r)
				o.Vs = p
				return o, true
			}
			o := mk("SetTF", r)
			o.Vs = p
			o.V = d.scalar()
			return o, true
		}
	}
	r := objs[d.rng.Intn(len(objs))]
	key := func() model.Val { return model.Val{K: "str", V: 1 + d.rng.Intn(d.nkeys)} }
	if d.bigObj {
		switch c := d.rng.Intn(14); {
		case c >= 12: // fill every key, or remove most of the present keys in one call
			if c == 12 {
				o := mk("Set", r)
				for k := 1; k <= d.nkeys; k++ {
					o.Vs = append(o.Vs, model.Val{K: "str", V: k}, d.scalar())
				}
				// ... and right after it an asynchronous walk over the now full object
				d.pending = &model.Op{Op: "ForEach", R: r, I: 8, V: none}
				return o, true
			}
			o := mk("Unset", r)
			present := []int{}
			for k, v := range d.cur[r-1].E {
				if v.K != "absent" {
					present = append(present, k+1)
				}
			}
			d.rng.Shuffle(len(present), func(i, j int) { present[i], present[j] = present[j], present[i] })
			n := len(present) * (75 + d.rng.Intn(21)) / 100
			o.Ks = append(o.Ks, present[:n]...)
			return o, true
		case c < 4: // bulk Set
			o := mk("Set", r)
			for i := 1 + d.rng.Intn(d.nkeys); i > 0; i-- {
				o.Vs = append(o.Vs, key(), d.scalar())
			}
			return o, true
		case c < 8: // bulk Unset (one call removes many fields)
			o := mk("Unset", r)
			present := []int{}
			for k, v := range d.cur[r-1].E {
				if v.K != "absent" {
					present = append(present, k+1)
				}
			}
			d.rng.Shuffle(len(present), func(i, j int) { present[i], present[j] = present[j], present[i] })
			n := d.rng.Intn(len(present) + 1)
			o.Ks = append(o.Ks, present[:n]...)
			if d.rng.Intn(3) == 0 {
				o.Ks = append(o.Ks, key().V)
			}
			return o, true
		case c < 9: // Pluck with as many arguments as there are fields, some of them repeated
			o := mk("Pluck", r)
			present := []int{}
			for k, v := range d.cur[r-1].E {
				if v.K != "absent" {
					present = append(present, k+1)
				}
			}
			for i := 0; i < len(present); i++ {
				o.Ks = append(o.Ks, present[d.rng.Intn(len(present))])
			}
			return o, true
		case c < 10:
			o := mk("ForEach", r)
			o.I = d.rng.Intn(9)
			return o, true
		}
	}
	switch c := d.rng.Intn(20); {
	case c < 6:
		o := mk("Set", r)
		for i := 1 + d.rng.Intn(2); i > 0; i-- {
			o.Vs = append(o.Vs, key(), d.value(r))
		}
		if d.rng.Intn(25) == 0 {
			o.Vs = append(o.Vs, key()) // odd count: panics
		}
		return o, true
	case c < 8:
		o := mk("Unset", r)
		o.Ks = []int{key().V}
		return o, true
	case c < 9:
		return mk("ClearO", r), true
	case c < 11:
		if d.bigObj {
			return mk("CloneO", r), true
		}
		return mk([]string{"Keys", "Values"}[d.rng.Intn(2)], r), true
	case c < 12:
		o := mk("Pluck", r)
		for i := d.rng.Intn(3); i > 0; i-- {
			o.Ks = append(o.Ks, key().V)
		}
		return o, true
	case c < 14:
		o := mk("Merge", r)
		o.J = objs[d.rng.Intn(len(objs))]
		return o, true
	case c < 16:
		return mk("CloneO", r), true
	case c < 17:
		return mk("MapIdO", r), true
	default:
		p := d.path("O")
		if lp := d.livePath(r); len(lp) > 0 && d.rng.Intn(2) == 0 {
			p = lp
		}
		if d.rng.Intn(3) == 0 {
			o := mk("UnsetTF", r)
			o.Vs = p
			return o, true
		}
		o := mk("SetTF", r)
		o.Vs = p
		o.V = d.scalar()
		return o, true
	}
}

// assign binds the containers an operation created, in the allocation order of Heap.tla
func (d *driver) assign(o model.Op, panicked bool, ret any) model.Val {
	none := model.Val{K: "none"}
	if panicked {
		return none
	}
	switch o.Op {
	case "Clone", "CloneO":
		d.postorder(ret, 0)
	case "Merge":
		if res, ok := ret.(at.Object); ok {
			for k := 1; k <= d.nkeys; k++ {
				key := d.real.T.Str(k)
				if res.KeyExists(key) {
					d.postorder(res.Get(key), 0)
				}
			}
			d.bindNew(ret)
		}
	case "SetTF":
		cur := d.real.Fwd[o.R]
		for i := 0; i+1 < len(o.Vs) && cur != nil; i++ {
			seg := o.Vs[i]
			var nx any
			func() {
				defer func() { recover() }()
				switch c := cur.(type) {
				case at.List:
					if seg.K == "idx" {
						nx = c.Get(seg.V)
					}
				case at.Object:
					if seg.K == "key" {
						nx = c.Get(d.real.T.Str(seg.V))
					}
				}
			}()
			if !isContainer(nx) {
				break
			}
			d.bindNew(nx)
			cur = nx
		}
	case "NewList", "NewListOf", "NewObject", "SubList", "Concat", "FilterAll", "FilterHead", "MapId", "Keys", "Values", "Pluck", "MapIdO":
		d.bindNew(ret)
	}
	switch o.Op {
	case "GetTF":
		if isContainer(ret) {
			if id, ok := d.real.Rev[ret]; ok {
				return model.Val{K: "ref", V: id}
			}
		} else if v, ok := d.real.T.Abs(ret); ok {
			return v
		}
		d.alien++
		return model.Val{K: "alien"}
	case "IndexOf":
		if i, ok := ret.(int); ok {
			return model.Val{K: "int", V: i}
		}
	case "KeyOf":
		if k, ok := ret.(string); ok {
			if v, ok := d.real.T.Abs(k); ok {
				return v
			}
		}
		d.alien++
		return model.Val{K: "alien"}
	}
	if b, ok := ret.(bool); ok && (o.Op == "Equals" || o.Op == "NativeCheck" || o.Op == "Contains") {
		if b {
			return model.Val{K: "bool", V: 1}
		}
		return model.Val{K: "bool", V: 0}
	}
	if ret == nil {
		return none
	}
	if isContainer(ret) {
		if id, ok := d.real.Rev[ret]; ok {
			return model.Val{K: "ref", V: id}
		}
		d.alien++
		return model.Val{K: "alien"}
	}
	return none
}

// unfoldSize: how many cells a deep copy of container id allocates (one per occurrence), capped.
func (d *driver) unfoldSize(id int, memo map[int]int) int {
	if v, ok := memo[id]; ok {
		return v
	}
	n := 1
	for _, v := range d.cur[id-1].E {
		if v.K == "ref" {
			n += d.unfoldSize(v.V, memo)
			if n > 1<<20 {
				break
			}
		}
	}
	memo[id] = n
	return n
}

// affordable reports whether an operation keeps the recorded heap at a size TLC can follow.
func (d *driver) affordable(o model.Op) bool {
	const maxCells = 3000
	switch o.Op {
	case "Clone", "CloneO":
		return len(d.cur)+d.unfoldSize(o.R, map[int]int{}) <= maxCells
	case "Merge":
		return len(d.cur)+d.unfoldSize(o.R, map[int]int{})+1 <= maxCells
	}
	return len(d.cur) < maxCells
}

// logStep writes one trace line; the heap is logged as a delta against the previous line
// cyclic: does the projected heap contain a container that reaches itself?
func (d *driver) cyclic() bool {
	state := make([]int8, len(d.cur)) // 0 new, 1 on the stack, 2 done
	var visit func(i int) bool
	visit = func(i int) bool {
		if state[i] == 1 {
			return true
		}
		if state[i] == 2 {
			return false
		}
		state[i] = 1
		for _, v := range d.cur[i].E {
			if v.K == "ref" && v.V >= 1 && v.V <= len(d.cur) && visit(v.V-1) {
				return true
			}
		}
		state[i] = 2
		return false
	}
	for i := range d.cur {
		if visit(i) {
			return true
		}
	}
	return false
}

func (d *driver) logStep(o model.Op, panicked bool, rv model.Val, prev model.Heap) {
	if !d.dead && d.cyclic() {
		// logged as it is (the specification's heaps are acyclic, so TLC rejects this event); the program ends here
		d.dead = true
	}
	type ch [2]any
	var changed []ch
	for i, c := range d.cur {
		same := i < len(prev) && prev[i].T == c.T && len(prev[i].E) == len(c.E)
		if same {
			for j := range c.E {
				if prev[i].E[j] != c.E[j] {
					same = false
					break
				}
			}
		}
		if !same {
			changed = append(changed, ch{i + 1, c})
		}
	}
	if changed == nil {
		changed = []ch{}
	}
	b, _ := json.Marshal(map[string]any{"t": "op", "o": o, "p": panicked, "ret": rv, "n": len(d.cur), "ch": changed})
	d.w.Write(b)
	d.w.WriteByte('\n')
	d.steps++
	d.logSpine(o, panicked)
}

func (d *driver) step() bool {
	if d.dead {
		return false
	}
	o, ok := d.pickOp()
	if !ok {
		return false
	}
	if !d.real.Executable(o) || !d.affordable(o) {
		return true
	}
	panicked, ret, _ := d.real.Exec(o)
	rv := d.assign(o, panicked, ret)
	prev := d.cur
	d.cur = d.project()
	d.logStep(o, panicked, rv, prev)
	return true
}

func cmdDrive(args []string) int {
	fs := flag.NewFlagSet("drive", flag.ExitOnError)
	outTrace := fs.String("trace", "", "ndjson trace file")
	seed := fs.Int64("seed", 1, "seed")
	programs := fs.Int("programs", 30, "programs with small containers")
	steps := fs.Int("steps", 120, "steps per program")
	bigPrograms := fs.Int("bigprograms", 6, "programs with lists of several hundred elements")
	bigSteps := fs.Int("bigsteps", 50, "steps per big program")
	nkeys := fs.Int("nkeys", 4, "key tokens")
	derived := fs.Int("derived", 0, "0 plain, 1/2: containers are derived structs")
	summary := fs.String("out", "", "summary file")
	bigObj := fs.Bool("bigobj", false, "objects with up to -nkeys generated keys, bulk Set/Unset/Pluck (no Keys/Values)")
	spineOut := fs.String("spine", "", "ndjson file for the slice headers of the built-in lists (spec/SliceTrace.tla)")
	scenarios := fs.Bool("scenarios", false, "append scripted scenarios: Equals on lists of ~2050 elements, nesting chains of depth ~140/260")
	fs.Parse(args)
	f, err := os.Create(*outTrace)
	if err != nil {
		fmt.Fprintln(os.Stderr, err)
		return 2
	}
	w := bufio.NewWriterSize(f, 1<<20)
	var sw *bufio.Writer
	if *spineOut != "" {
		sf, err := os.Create(*spineOut)
		if err != nil {
			fmt.Fprintln(os.Stderr, err)
			return 2
		}
		defer sf.Close()
		sw = bufio.NewWriterSize(sf, 1<<20)
		defer sw.Flush()
	}
	total, aliens := 0, 0
	var sizes []int
	run := func(p int, big bool, nsteps int) {
		rng := rand.New(rand.NewSource(*seed*1000003 + int64(p)))
		gen := 0
		if *bigObj {
			gen = 1
		} else if p%3 == 2 {
			// every third program runs on look-alike strings (long common prefixes, case pairs, ...)
			gen = 2
		}
		t := driverTable(gen, *seed+int64(p), *nkeys)
		d := &driver{rng: rng, real: heapx.New(t, nil, *nkeys, *derived), nkeys: *nkeys, next: 1, big: big, bigObj: *bigObj, maxList: 40, w: w, sw: sw, spine: map[int][3]int{}, arrIDs: map[uintptr]int{}}
		if big {
			d.maxList = 700
		}
		if sw != nil {
			fmt.Fprintln(sw, `{"t":"reset","op":"","r":0,"i":0,"k":0,"p":false,"sp":[]}`)
		}
		fmt.Fprintf(w, "{\"t\":\"reset\",\"nkeys\":%d,\"derived\":%d,\"cseed\":%d,\"gen\":%d}\n", *nkeys, *derived, *seed+int64(p), gen)
		logged := func(o model.Op) {
			if d.dead || !d.real.Executable(o) || !d.affordable(o) {
				return
			}
			panicked, ret, _ := d.real.Exec(o)
			rv := d.assign(o, panicked, ret)
			prev := d.cur
			d.cur = d.project()
			d.logStep(o, panicked, rv, prev)
		}
		for s := 0; s < nsteps; s++ {
			d.step()
			if d.bigObj && s == 3 {
				// an object whose every field holds a container, copied and merged
				none := model.Val{K: "none"}
				before := len(d.cur)
				logged(model.Op{Op: "NewList", V: none, Vs: []model.Val{{K: "int", V: 1}}})
				logged(model.Op{Op: "NewObject", V: none, Vs: []model.Val{{K: "str", V: 1}, {K: "int", V: 2}}})
				logged(model.Op{Op: "NewObject", V: none})
				if len(d.cur) == before+3 {
					li, ob, host := before+1, before+2, before+3
					o := model.Op{Op: "Set", R: host, V: none}
					for k := 1; k <= d.nkeys; k++ {
						ref := li
						if k%2 == 0 {
							ref = ob
						}
						o.Vs = append(o.Vs, model.Val{K: "str", V: k}, model.Val{K: "ref", V: ref})
					}
					logged(o)
					logged(model.Op{Op: "CloneO", R: host, V: none})
					logged(model.Op{Op: "NativeCheck", R: host, V: none})
					logged(model.Op{Op: "Text", R: host, V: none})
					logged(model.Op{Op: "Add", R: li, V: none, Vs: []model.Val{{K: "int", V: 5}}})
					logged(model.Op{Op: "ClearO", R: host, V: none})
				}
			}
			if d.bigObj && s == 9 {
				// fill an object completely, then remove most of its fields in ONE call (several times, other proportions),
				// refill a few, remove the rest in one call
				none := model.Val{K: "none"}
				before := len(d.cur)
				logged(model.Op{Op: "NewObject", V: none})
				if len(d.cur) == before+1 {
					ob := before + 1
					for round, pct := range []int{88, 60, 97} {
						o := model.Op{Op: "Set", R: ob, V: none}
						for k := 1; k <= d.nkeys; k++ {
							o.Vs = append(o.Vs, model.Val{K: "str", V: k}, model.Val{K: "int", V: (k + round) % 10})
						}
						logged(o)
						perm := rng.Perm(d.nkeys)
						u := model.Op{Op: "Unset", R: ob, V: none}
						for _, k := range perm[:d.nkeys*pct/100] {
							u.Ks = append(u.Ks, k+1)
						}
						logged(u)
						logged(model.Op{Op: "ForEach", R: ob, I: 8, V: none})
						logged(model.Op{Op: "Text", R: ob, V: none})
						rest := model.Op{Op: "Unset", R: ob, V: none}
						for _, k := range perm[d.nkeys*pct/100:] {
							rest.Ks = append(rest.Ks, k+1)
						}
						rest.Ks = append(rest.Ks, 1, 2) // already gone or going: no-ops
						logged(rest)
					}
				}
			}
			if big && s%7 == 3 {
				// a container at the very end of the longest list, then a deep copy of that list
				ls := d.ids("L")
				best := 0
				for _, r := range ls {
					if best == 0 || len(d.cur[r-1].E) > len(d.cur[best-1].E) {
						best = r
					}
				}
				if best > 0 && len(d.cur[best-1].E) < d.maxList {
					o := model.Op{Op: "Add", R: best, V: model.Val{K: "none"}}
					for k := 1 + rng.Intn(3); k > 0; k-- {
						v := d.value(best)
						if v.K != "ref" {
							v = d.value(best)
						}
						o.Vs = append(o.Vs, v)
					}
					logged(o)
					logged(model.Op{Op: "Clone", R: best, V: model.Val{K: "none"}})
				}
			}
			if big && s > 5 && s%9 == 0 {
				// shrink a big list far below its capacity
				ls := d.ids("L")
				if len(ls) > 0 {
					r := ls[rng.Intn(len(ls))]
					for k := 0; k < 12 && len(d.cur[r-1].E) > 0; k++ {
						o := model.Op{Op: "Delete", R: r, V: model.Val{K: "none"}}
						n := len(d.cur[r-1].E)
						// from a third of the list up to all but a few elements in ONE call
						cnt := n/3 + rng.Intn(n-n/3+1)
						if rng.Intn(3) == 0 {
							cnt = n - 1 - rng.Intn(4)
						}
						if cnt < 1 {
							cnt = 1
						}
						if cnt > n {
							cnt = n
						}
						if cnt > 200 {
							cnt = 200
						}
						seen := map[int]bool{}
						for len(o.Ks) < cnt {
							x := rng.Intn(n)
							if !seen[x] {
								seen[x] = true
								o.Ks = append(o.Ks, x)
							}
						}
						logged(o)
					}
				}
			}
			if big && s%5 == 4 {
				// search a long list for a value it holds more than once (first position counts), and for its last element
				ls := d.ids("L")
				var long []int
				for _, r := range ls {
					if len(d.cur[r-1].E) >= 40 {
						long = append(long, r)
					}
				}
				if len(long) > 0 {
					r := long[rng.Intn(len(long))]
					e := d.cur[r-1].E
					n := len(e)
					count := map[model.Val]int{}
					var twice []model.Val
					for _, v := range e {
						count[v]++
						if count[v] == 2 {
							twice = append(twice, v)
						}
					}
					if len(twice) == 0 {
						v := d.scalar()
						logged(model.Op{Op: "Replace", R: r, I: n / 3, V: v})
						logged(model.Op{Op: "Replace", R: r, I: n - 2, V: v})
						twice = append(twice, v)
					}
					v := twice[rng.Intn(len(twice))]
					logged(model.Op{Op: "IndexOf", R: r, V: v})
					logged(model.Op{Op: "Contains", R: r, V: v})
					logged(model.Op{Op: "IndexOf", R: r, V: d.cur[r-1].E[n-1]})
					logged(model.Op{Op: "IndexOf", R: r, V: model.Val{K: "int", V: 777}})
				}
			}
			if big && s%5 == 1 {
				// a long list used as a queue: take from the front, grow past the capacity in one call, put back at the front
				ls := d.ids("L")
				var long []int
				for _, r := range ls {
					if n := len(d.cur[r-1].E); n >= 64 && n < d.maxList-80 {
						long = append(long, r)
					}
				}
				if len(long) > 0 {
					r := long[rng.Intn(len(long))]
					none := model.Val{K: "none"}
					logged(model.Op{Op: "Delete", R: r, V: none, Ks: []int{0}})
					if rng.Intn(2) == 0 {
						logged(model.Op{Op: "Delete", R: r, V: none, Ks: []int{0}})
					}
					grow := model.Op{Op: "Add", R: r, V: none}
					for k := len(d.cur[r-1].E)/2 + 3; k > 0 && len(grow.Vs) < 70; k-- {
						grow.Vs = append(grow.Vs, d.scalar())
					}
					logged(grow)
					logged(model.Op{Op: "Replace", R: r, I: 10, V: d.scalar()})
					if rng.Intn(2) == 0 {
						logged(model.Op{Op: "Pop", R: r, V: none})
					}
					logged(model.Op{Op: "Insert", R: r, I: 0, V: d.scalar()})
					logged(model.Op{Op: "Insert", R: r, I: 0, V: d.scalar()})
					logged(model.Op{Op: "Delete", R: r, V: none, Ks: []int{0}})
					logged(model.Op{Op: "Insert", R: r, I: 1, V: d.scalar()})
				}
			}
			if big && s%5 == 2 {
				// a window that reaches the end of a long list (SubList to the end, Concat with an empty list, Clone),
				// then shrink-and-grow on one of the two, overwrite on the other: neither may see the other's writes
				ls := d.ids("L")
				var long []int
				for _, r := range ls {
					if n := len(d.cur[r-1].E); n >= 40 && n < d.maxList-4 {
						long = append(long, r)
					}
				}
				if len(long) > 0 && len(d.cur) < 60 {
					r := long[rng.Intn(len(long))]
					none := model.Val{K: "none"}
					var o model.Op
					switch rng.Intn(3) {
					case 0:
						o = model.Op{Op: "SubList", R: r, I: rng.Intn(3), J: 0, V: none}
					case 1:
						o = model.Op{Op: "Clone", R: r, V: none}
					default:
						o = model.Op{Op: "SubList", R: r, I: 0, J: len(d.cur[r-1].E) - rng.Intn(2), V: none}
					}
					before := len(d.cur)
					logged(o)
					if len(d.cur) > before && d.cur[len(d.cur)-1].T == "L" {
						x := len(d.cur) // the derived list
						a, b := r, x
						if rng.Intn(2) == 0 {
							a, b = x, r
						}
						logged(model.Op{Op: "Pop", R: a, V: none})
						logged(model.Op{Op: "Add", R: a, V: none, Vs: []model.Val{d.scalar()}})
						if n := len(d.cur[b-1].E); n > 0 {
							logged(model.Op{Op: "Replace", R: b, I: n - 1, V: d.scalar()})
							logged(model.Op{Op: "Insert", R: b, I: n / 2, V: d.scalar()})
						}
						logged(model.Op{Op: "Delete", R: a, V: none, Ks: []int{0}})
						logged(model.Op{Op: "Add", R: b, V: none, Vs: []model.Val{d.scalar(), d.scalar()}})
					}
				}
			}
		}
		total += d.steps
		aliens += d.alien
		mx := 0
		for _, c := range d.cur {
			if len(c.E) > mx {
				mx = len(c.E)
			}
		}
		sizes = append(sizes, mx)
	}
	for p := 0; p < *programs; p++ {
		run(p, false, *steps)
	}
	for p := 0; p < *bigPrograms; p++ {
		run(10000+p, true, *bigSteps)
	}
	if *scenarios {
		none := model.Val{K: "none"}
		scen := func(p int, body func(d *driver, logged func(model.Op) model.Val)) {
			rng := rand.New(rand.NewSource(*seed*7 + int64(p)))
			t := driverTable(0, *seed+int64(p), *nkeys)
			d := &driver{rng: rng, real: heapx.New(t, nil, *nkeys, *derived), nkeys: *nkeys, next: 1, big: true, maxList: 1 << 30, w: w}
			fmt.Fprintf(w, "{\"t\":\"reset\",\"nkeys\":%d,\"derived\":%d,\"cseed\":%d,\"gen\":0}\n", *nkeys, *derived, *seed+int64(p))
			logged := func(o model.Op) model.Val {
				if d.dead {
					return model.Val{K: "none"}
				}
				panicked, ret, _ := d.real.Exec(o)
				rv := d.assign(o, panicked, ret)
				prev := d.cur
				d.cur = d.project()
				d.logStep(o, panicked, rv, prev)
				return rv
			}
			body(d, logged)
			total += d.steps
			aliens += d.alien
			mx := 0
			for _, c := range d.cur {
				if len(c.E) > mx {
					mx = len(c.E)
				}
			}
			sizes = append(sizes, mx)
		}
		// Equals on long lists that differ only near the end
		for si, n := range []int{2049, 2051 + int(*seed%5), 4101} {
			n := n
			scen(20000+si, func(d *driver, logged func(model.Op) model.Val) {
				a := logged(model.Op{Op: "NewListOf", I: n, V: model.Val{K: "int", V: 1}}).V
				b := logged(model.Op{Op: "Clone", R: a, V: none}).V
				if *derived == 0 {
					logged(model.Op{Op: "Equals", R: a, J: b, V: none})
				}
				logged(model.Op{Op: "Replace", R: b, I: n - 1, V: model.Val{K: "int", V: 2}})
				if *derived == 0 {
					logged(model.Op{Op: "Equals", R: a, J: b, V: none})
					logged(model.Op{Op: "Equals", R: b, J: a, V: none})
				}
				// the same one level down
				outerA := logged(model.Op{Op: "NewList", V: none, Vs: []model.Val{{K: "str", V: 1}, {K: "ref", V: a}}}).V
				outerB := logged(model.Op{Op: "NewList", V: none, Vs: []model.Val{{K: "str", V: 1}, {K: "ref", V: b}}}).V
				if *derived == 0 {
					logged(model.Op{Op: "Equals", R: outerA, J: outerB, V: none})
				}
				logged(model.Op{Op: "ForEach", R: a, I: 8, V: none})
				logged(model.Op{Op: "NativeCheck", R: outerB, V: none})
			})
		}
		// equality and search across a churn of thousands of unrelated values (interning / memo tables that get rebuilt)
		scen(20400, func(d *driver, logged func(model.Op) model.Val) {
			inner := logged(model.Op{Op: "NewObject", V: none, Vs: []model.Val{{K: "str", V: 1}, {K: "str", V: 2}}}).V
			a := logged(model.Op{Op: "NewList", V: none, Vs: []model.Val{{K: "str", V: 1}, {K: "str", V: 2}, {K: "int", V: 3}, {K: "float", V: 2}, {K: "ref", V: inner}, {K: "str", V: 1}}}).V
			b := logged(model.Op{Op: "Clone", R: a, V: none}).V
			logged(model.Op{Op: "Churn", V: none})
			c := logged(model.Op{Op: "Clone", R: a, V: none}).V
			e := logged(model.Op{Op: "NewList", V: none, Vs: []model.Val{{K: "str", V: 1}, {K: "str", V: 2}, {K: "int", V: 3}, {K: "float", V: 2}, {K: "ref", V: inner}, {K: "str", V: 1}}}).V
			if *derived == 0 {
				for _, pr := range [][2]int{{a, b}, {a, c}, {b, c}, {c, a}, {a, e}, {e, b}} {
					logged(model.Op{Op: "Equals", R: pr[0], J: pr[1], V: none})
				}
			}
			logged(model.Op{Op: "IndexOf", R: a, V: model.Val{K: "str", V: 2}})
			logged(model.Op{Op: "Contains", R: c, V: model.Val{K: "str", V: 1}})
			logged(model.Op{Op: "Churn", V: none})
			logged(model.Op{Op: "Set", R: inner, V: none, Vs: []model.Val{{K: "str", V: 2}, {K: "str", V: 1}}})
			logged(model.Op{Op: "NativeCheck", R: a, V: none})
			logged(model.Op{Op: "Text", R: a, V: none})
			if *derived == 0 {
				logged(model.Op{Op: "Equals", R: a, J: e, V: none})
				logged(model.Op{Op: "Equals", R: a, J: c, V: none})
			}
		})
		// Sort outside its domain (first element decides, other kinds are dropped): what is left must behave like any other
		// list of that content — equality, search, views
		scen(20410, func(d *driver, logged func(model.Op) model.Val) {
			iv := func(i int) model.Val { return model.Val{K: "int", V: i} }
			for _, mix := range [][]model.Val{{iv(3), {K: "str", V: 1}, iv(1), iv(2)}, {{K: "str", V: 2}, iv(5), {K: "str", V: 1}, {K: "nil"}}, {{K: "float", V: 2}, iv(1), {K: "float", V: 1}, {K: "bool", V: 1}}} {
				a := logged(model.Op{Op: "NewList", V: none, Vs: mix}).V
				logged(model.Op{Op: "SortAny", R: a, V: none})
				var kept []model.Val
				for _, v := range d.cur[a-1].E {
					kept = append(kept, v)
				}
				b := logged(model.Op{Op: "NewList", V: none, Vs: kept}).V
				if *derived == 0 {
					logged(model.Op{Op: "Equals", R: a, J: b, V: none})
					logged(model.Op{Op: "Equals", R: b, J: a, V: none})
				}
				c := logged(model.Op{Op: "Clone", R: a, V: none})
				if c.K == "ref" && *derived == 0 {
					logged(model.Op{Op: "Equals", R: c.V, J: b, V: none})
				}
				outer := logged(model.Op{Op: "NewList", V: none, Vs: []model.Val{{K: "ref", V: a}}}).V
				outerB := logged(model.Op{Op: "NewList", V: none, Vs: []model.Val{{K: "ref", V: b}}}).V
				if *derived == 0 {
					logged(model.Op{Op: "Equals", R: outer, J: outerB, V: none})
				}
				logged(model.Op{Op: "NativeCheck", R: a, V: none})
				logged(model.Op{Op: "ForEach", R: a, I: 6, V: none})
				logged(model.Op{Op: "Add", R: a, V: none, Vs: []model.Val{{K: "nil"}}})
				logged(model.Op{Op: "Add", R: b, V: none, Vs: []model.Val{{K: "nil"}}})
				if *derived == 0 {
					logged(model.Op{Op: "Equals", R: a, J: b, V: none})
				}
			}
		})
		// read-only calls on containers that hold the infinities (texts of such containers are not JSON, but the calls must
		// still leave the containers alone)
		scen(20420, func(d *driver, logged func(model.Op) model.Val) {
			ninf, pinf := model.Val{K: "float", V: -4}, model.Val{K: "float", V: 4}
			a := logged(model.Op{Op: "NewList", V: none, Vs: []model.Val{{K: "int", V: 1}, pinf, {K: "str", V: 1}, ninf, {K: "float", V: 2}, pinf}}).V
			o := logged(model.Op{Op: "NewObject", V: none, Vs: []model.Val{{K: "str", V: 1}, ninf, {K: "str", V: 2}, {K: "ref", V: a}, {K: "str", V: 3}, pinf}}).V
			for _, r := range []int{a, o, a} {
				logged(model.Op{Op: "Text", R: r, V: none})
				logged(model.Op{Op: "NativeCheck", R: r, V: none})
				logged(model.Op{Op: "ForEach", R: r, I: 7, V: none})
			}
			logged(model.Op{Op: "IndexOf", R: a, V: pinf})
			logged(model.Op{Op: "Contains", R: o, V: ninf})
			b := logged(model.Op{Op: "Clone", R: a, V: none})
			if b.K == "ref" && *derived == 0 {
				logged(model.Op{Op: "Equals", R: a, J: b.V, V: none})
			}
			logged(model.Op{Op: "SubList", R: a, I: 1, J: 0, V: none})
			logged(model.Op{Op: "MapId", R: a, V: none})
			logged(model.Op{Op: "Text", R: o, V: none})
		})
		// three holders of equal content (an object, its copy, a copy of the copy): Clear / Unset / Set on one after the other
		for si := 0; si < 6; si++ {
			si := si
			scen(20430+si, func(d *driver, logged func(model.Op) model.Val) {
				str := func(k int) model.Val { return model.Val{K: "str", V: k} }
				o := logged(model.Op{Op: "NewObject", V: none, Vs: []model.Val{str(1), {K: "int", V: 1}, str(2), {K: "str", V: 3}, str(3), {K: "float", V: 2}}}).V
				c1 := logged(model.Op{Op: "CloneO", R: o, V: none}).V
				var c2 int
				if si%2 == 0 {
					c2 = logged(model.Op{Op: "CloneO", R: c1, V: none}).V
				} else {
					c2 = logged(model.Op{Op: "CloneO", R: o, V: none}).V
				}
				h := [][3]int{{o, c1, c2}, {c1, c2, o}, {c2, o, c1}}[si%3]
				logged(model.Op{Op: "ClearO", R: h[0], V: none})
				logged(model.Op{Op: "Set", R: h[0], V: none, Vs: []model.Val{str(1), {K: "int", V: 9}}})
				logged(model.Op{Op: "Set", R: h[1], V: none, Vs: []model.Val{str(2), {K: "int", V: 8}}})
				logged(model.Op{Op: "Unset", R: h[2], V: none, Ks: []int{3}})
				logged(model.Op{Op: "Set", R: h[0], V: none, Vs: []model.Val{str(4), {K: "bool", V: 1}}})
				logged(model.Op{Op: "ClearO", R: h[1], V: none})
				logged(model.Op{Op: "Set", R: h[2], V: none, Vs: []model.Val{str(1), {K: "nil"}}})
				logged(model.Op{Op: "Set", R: h[1], V: none, Vs: []model.Val{str(3), {K: "int", V: 7}}})
				lst := logged(model.Op{Op: "NewList", V: none, Vs: []model.Val{{K: "ref", V: h[2]}, {K: "ref", V: h[2]}}}).V
				cl := logged(model.Op{Op: "Clone", R: lst, V: none})
				_ = cl
				logged(model.Op{Op: "SetTF", R: lst, V: model.Val{K: "int", V: 5}, Vs: []model.Val{{K: "idx", V: 0}, {K: "key", V: 2}}})
				logged(model.Op{Op: "UnsetTF", R: lst, V: none, Vs: []model.Val{{K: "idx", V: 1}, {K: "key", V: 1}}})
			})
		}
		// deep copies of medium lists with containers at block boundaries (index 31, 32, 63, 64, last)
		for si, n := range []int{33, 40, 64, 65, 130, 257} {
			n := n
			scen(20450+si, func(d *driver, logged func(model.Op) model.Val) {
				a := logged(model.Op{Op: "NewListOf", I: n, V: model.Val{K: "int", V: 2}}).V
				for _, at := range []int{0, 31, 32, 63, 64, n - 1} {
					if at < n {
						in := logged(model.Op{Op: "NewList", V: none, Vs: []model.Val{{K: "int", V: at % 10}}}).V
						logged(model.Op{Op: "Replace", R: a, I: at, V: model.Val{K: "ref", V: in}})
					}
				}
				b := logged(model.Op{Op: "Clone", R: a, V: none})
				logged(model.Op{Op: "NativeCheck", R: a, V: none})
				if b.K == "ref" && *derived == 0 {
					logged(model.Op{Op: "Equals", R: a, J: b.V, V: none})
				}
				sub := logged(model.Op{Op: "SubList", R: a, I: 1, J: 0, V: none})
				if sub.K == "ref" {
					logged(model.Op{Op: "Clone", R: sub.V, V: none})
				}
				host := logged(model.Op{Op: "NewObject", V: none, Vs: []model.Val{{K: "str", V: 1}, {K: "ref", V: a}}}).V
				logged(model.Op{Op: "CloneO", R: host, V: none})
			})
		}
		// long lists whose LAST elements are containers (block-wise or parallel processing that drops a remainder)
		for si, n := range []int{1027, 2051, 4099 + int(*seed%4)} {
			n := n
			scen(20500+si, func(d *driver, logged func(model.Op) model.Val) {
				a := logged(model.Op{Op: "NewListOf", I: n, V: model.Val{K: "int", V: 3}}).V
				inner := logged(model.Op{Op: "NewList", V: none, Vs: []model.Val{{K: "int", V: 1}}}).V
				innerO := logged(model.Op{Op: "NewObject", V: none, Vs: []model.Val{{K: "str", V: 1}, {K: "int", V: 2}}}).V
				logged(model.Op{Op: "Replace", R: a, I: n - 1, V: model.Val{K: "ref", V: inner}})
				logged(model.Op{Op: "Replace", R: a, I: n - 2, V: model.Val{K: "ref", V: innerO}})
				logged(model.Op{Op: "Replace", R: a, I: n - 3, V: model.Val{K: "str", V: 2}})
				logged(model.Op{Op: "NativeCheck", R: a, V: none})
				logged(model.Op{Op: "IndexOf", R: a, V: model.Val{K: "ref", V: inner}})
				logged(model.Op{Op: "Contains", R: a, V: model.Val{K: "str", V: 2}})
				logged(model.Op{Op: "Text", R: a, V: none})
				// tree-form paths through far indexes
				idx := func(i int) model.Val { return model.Val{K: "idx", V: i} }
				key := func(k int) model.Val { return model.Val{K: "key", V: k} }
				logged(model.Op{Op: "GetTF", R: a, V: none, Vs: []model.Val{idx(n - 1), idx(0)}})
				logged(model.Op{Op: "GetTF", R: a, V: none, Vs: []model.Val{idx(n - 2), key(1)}})
				logged(model.Op{Op: "GetTF", R: a, V: none, Vs: []model.Val{idx(n / 2)}})
				logged(model.Op{Op: "GetTF", R: a, V: none, Vs: []model.Val{idx(n)}})
				logged(model.Op{Op: "SetTF", R: a, V: model.Val{K: "int", V: 8}, Vs: []model.Val{idx(n - 1), idx(1)}})
				logged(model.Op{Op: "SetTF", R: a, V: model.Val{K: "str", V: 1}, Vs: []model.Val{idx(n - 2), key(2)}})
				logged(model.Op{Op: "SetTF", R: a, V: model.Val{K: "int", V: 6}, Vs: []model.Val{idx(n - 4)}})
				logged(model.Op{Op: "UnsetTF", R: a, V: none, Vs: []model.Val{idx(n - 2), key(1)}})
				logged(model.Op{Op: "UnsetTF", R: a, V: none, Vs: []model.Val{idx(130)}})
				logged(model.Op{Op: "SetTF", R: a, V: model.Val{K: "int", V: 3}, Vs: []model.Val{idx(130)}})
				logged(model.Op{Op: "GetTF", R: a, V: none, Vs: []model.Val{idx(n - 2), idx(0)}})
				// writes that pad: gaps of exactly one and two blocks of 32, at the end of a path and in the middle
				short := logged(model.Op{Op: "NewList", V: none, Vs: []model.Val{{K: "int", V: 1}, {K: "int", V: 2}}}).V
				logged(model.Op{Op: "SetTF", R: short, V: model.Val{K: "str", V: 1}, Vs: []model.Val{idx(34)}})
				logged(model.Op{Op: "SetTF", R: short, V: model.Val{K: "str", V: 2}, Vs: []model.Val{idx(35 + 64)}})
				logged(model.Op{Op: "SetTF", R: short, V: model.Val{K: "int", V: 4}, Vs: []model.Val{idx(0), idx(32)}})
				logged(model.Op{Op: "SetTF", R: short, V: model.Val{K: "int", V: 5}, Vs: []model.Val{idx(1), key(1), idx(64), idx(32)}})
				// removal through object -> list -> object and object -> list -> list -> object
				rec := logged(model.Op{Op: "NewObject", V: none, Vs: []model.Val{{K: "str", V: 1}, {K: "int", V: 1}, {K: "str", V: 3}, {K: "int", V: 2}}}).V
				rows := logged(model.Op{Op: "NewList", V: none, Vs: []model.Val{{K: "ref", V: rec}, {K: "int", V: 5}}}).V
				grid := logged(model.Op{Op: "NewList", V: none, Vs: []model.Val{{K: "ref", V: rows}}}).V
				top := logged(model.Op{Op: "NewObject", V: none, Vs: []model.Val{{K: "str", V: 2}, {K: "ref", V: rows}, {K: "str", V: 4}, {K: "ref", V: grid}}}).V
				logged(model.Op{Op: "GetTF", R: top, V: none, Vs: []model.Val{key(2), idx(0), key(1)}})
				logged(model.Op{Op: "UnsetTF", R: top, V: none, Vs: []model.Val{key(2), idx(0), key(1)}})
				logged(model.Op{Op: "UnsetTF", R: top, V: none, Vs: []model.Val{key(4), idx(0), idx(0), key(3)}})
				logged(model.Op{Op: "SetTF", R: top, V: model.Val{K: "int", V: 9}, Vs: []model.Val{key(4), idx(0), idx(0), key(1)}})
				logged(model.Op{Op: "UnsetTF", R: grid, V: none, Vs: []model.Val{idx(0), idx(0), key(1)}})
				logged(model.Op{Op: "UnsetTF", R: top, V: none, Vs: []model.Val{key(2), idx(1)}})
				holder := logged(model.Op{Op: "NewObject", V: none}).V
				logged(model.Op{Op: "SetTF", R: holder, V: model.Val{K: "int", V: 6}, Vs: []model.Val{key(2), idx(32)}})
				logged(model.Op{Op: "SetTF", R: holder, V: model.Val{K: "int", V: 7}, Vs: []model.Val{key(2), idx(33 + 32)}})
				logged(model.Op{Op: "GetTF", R: holder, V: none, Vs: []model.Val{key(2), idx(32)}})
				b := logged(model.Op{Op: "Clone", R: a, V: none}).V
				if *derived == 0 {
					logged(model.Op{Op: "Equals", R: a, J: b, V: none})
				}
				logged(model.Op{Op: "SubList", R: a, I: 1, J: 0, V: none})
				logged(model.Op{Op: "ForEach", R: a, I: 3, V: none})
				logged(model.Op{Op: "MapId", R: a, V: none})
				logged(model.Op{Op: "FilterAll", R: a, V: none})
				logged(model.Op{Op: "Reverse", R: a, V: none})
				logged(model.Op{Op: "NativeCheck", R: a, V: none})
			})
		}
		// nesting chains deeper than any depth limit an implementation might put on its recursions
		for si, depth := range []int{140, 260, 600, 1100} {
			depth := depth
			scen(21000+si, func(d *driver, logged func(model.Op) model.Val) {
				cur := logged(model.Op{Op: "NewList", V: none, Vs: []model.Val{{K: "int", V: 7}}}).V
				for k := 0; k < depth; k++ {
					// the child container stands last, first, or next to a second container (the innermost list, cell 1)
					switch {
					case k%2 == 0 && k%8 == 4:
						cur = logged(model.Op{Op: "NewList", V: none, Vs: []model.Val{{K: "ref", V: cur}, {K: "int", V: k % 5}}}).V
					case k%2 == 0 && k%8 == 6:
						cur = logged(model.Op{Op: "NewList", V: none, Vs: []model.Val{{K: "ref", V: 1}, {K: "ref", V: cur}, {K: "int", V: k % 5}, {K: "ref", V: 1}}}).V
					case k%2 == 0:
						cur = logged(model.Op{Op: "NewList", V: none, Vs: []model.Val{{K: "int", V: k % 5}, {K: "ref", V: cur}}}).V
					case k%6 == 5:
						cur = logged(model.Op{Op: "NewObject", V: none, Vs: []model.Val{{K: "str", V: 1}, {K: "ref", V: cur}, {K: "str", V: 2}, {K: "ref", V: 1}, {K: "str", V: 3}, {K: "int", V: 1}}}).V
					default:
						cur = logged(model.Op{Op: "NewObject", V: none, Vs: []model.Val{{K: "str", V: 1}, {K: "ref", V: cur}}}).V
					}
				}
				logged(model.Op{Op: "NativeCheck", R: cur, V: none})
				var cl model.Val
				if d.cur[cur-1].T == "L" {
					cl = logged(model.Op{Op: "Clone", R: cur, V: none})
				} else {
					cl = logged(model.Op{Op: "CloneO", R: cur, V: none})
				}
				if *derived == 0 && cl.K == "ref" {
					logged(model.Op{Op: "Equals", R: cur, J: cl.V, V: none})
				}
				logged(model.Op{Op: "NativeCheck", R: 1, V: none})
				// the innermost container of the copy (the first cell the copy created) changes: the original must not
				if cl.K == "ref" && cur+1 <= len(d.cur) && d.cur[cur].T == "L" {
					logged(model.Op{Op: "Add", R: cur + 1, V: none, Vs: []model.Val{{K: "int", V: 9}}})
					logged(model.Op{Op: "Text", R: cur, V: none})
				}
			})
		}
	}
	w.Flush()
	f.Close()
	sort.Ints(sizes)
	sum := map[string]any{"programs": *programs + *bigPrograms, "events": total, "alien_values": aliens, "max_container_sizes": sizes, "derived": *derived}
	b, _ := json.MarshalIndent(sum, "", " ")
	if *summary != "" {
		os.WriteFile(*summary, b, 0o644)
	} else {
		os.Stdout.Write(b)
	}
	return 0
}

// cmdRedrive re-executes the operations of a recorded trace on the current tree and writes a fresh trace.
func cmdRedrive(args []string) int {
	fs := flag.NewFlagSet("redrive", flag.ExitOnError)
	in := fs.String("in", "", "recorded ndjson trace")
	outTrace := fs.String("trace", "", "new ndjson trace")
	fs.Parse(args)
	fi, err := os.Open(*in)
	if err != nil {
		fmt.Fprintln(os.Stderr, err)
		return 2
	}
	defer fi.Close()
	fo, err := os.Create(*outTrace)
	if err != nil {
		fmt.Fprintln(os.Stderr, err)
		return 2
	}
	w := bufio.NewWriterSize(fo, 1<<20)
	var d *driver
	sc := bufio.NewScanner(fi)
	sc.Buffer(make([]byte, 1<<20), 1<<28)
	n := 0
	for sc.Scan() {
		var rec struct {
			T       string   `json:"t"`
			O       model.Op `json:"o"`
			NKeys   int      `json:"nkeys"`
			Derived int      `json:"derived"`
			CSeed   int64    `json:"cseed"`
			Gen     int      `json:"gen"`
		}
		if len(sc.Bytes()) == 0 {
			continue
		}
		if err := json.Unmarshal(sc.Bytes(), &rec); err != nil {
			fmt.Fprintln(os.Stderr, "redrive: bad line:", err)
			return 2
		}
		if rec.T == "reset" {
			if rec.NKeys == 0 {
				rec.NKeys = 4
			}
			tbl := driverTable(rec.Gen, rec.CSeed, rec.NKeys)
			d = &driver{rng: rand.New(rand.NewSource(1)), real: heapx.New(tbl, nil, rec.NKeys, rec.Derived), nkeys: rec.NKeys, next: 1, maxList: 1 << 30, w: w}
			fmt.Fprintf(w, "{\"t\":\"reset\",\"nkeys\":%d,\"derived\":%d,\"cseed\":%d,\"gen\":%d}\n", rec.NKeys, rec.Derived, rec.CSeed, rec.Gen)
			continue
		}
		if d == nil || !d.real.Executable(rec.O) {
			fmt.Fprintln(os.Stderr, "redrive: operation refers to an unknown container:", rec.O.String())
			return 2
		}
		panicked, ret, _ := d.real.Exec(rec.O)
		rv := d.assign(rec.O, panicked, ret)
		prev := d.cur
		d.cur = d.project()
		d.logStep(rec.O, panicked, rv, prev)
		n++
	}
	w.Flush()
	fo.Close()
	fmt.Printf("redrive: %d operations re-executed\n", n)
	return 0
}

func init() {
	extraCmds["drive"] = cmdDrive
	extraCmds["redrive"] = cmdRedrive
}
