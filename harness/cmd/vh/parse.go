package main

import (
	"bufio"
	"encoding/json"
	"flag"
	"fmt"
	"math/rand"
	"os"
	"path/filepath"
	"regexp"
	"strconv"
	"strings"
	"sync"
	"sync/atomic"
	"time"
	"unicode/utf8"

	at "github.com/DanielSvub/anytype"

	"verif/harness/jsonx"
)

// ---------------------------------------------------------------------------------------------
// C03: valid documents (TLC derivations of JsonRef) parsed by the real parser.
// ---------------------------------------------------------------------------------------------

type concDoc struct {
	text     string
	offs     []int // byte offset of every token
	expected *jsonx.CTree
	root     byte
	rootOff  int
}

// concretiseDoc turns a token list into text and the expected tree (duplicates kept, in order).
func concretiseDoc(d *docRec, p *jsonx.Picker, basicOnly bool) (*concDoc, error) {
	var b strings.Builder
	cd := &concDoc{}
	type frame struct {
		node     *jsonx.CTree
		firstKey string
		haveKey  bool
		key      string
	}
	var stack []*frame
	push := func(v *jsonx.CTree) {
		if len(stack) == 0 {
			return
		}
		f := stack[len(stack)-1]
		if f.node.Kind == 'L' {
			f.node.Elems = append(f.node.Elems, v)
		} else {
			f.node.Keys = append(f.node.Keys, f.key)
			f.node.Elems = append(f.node.Elems, v)
		}
	}
	pickN := 0
	next := func() int {
		pickN++
		if basicOnly {
			return 0
		}
		return p.Base + pickN*7
	}
	for _, t := range d.Toks {
		cd.offs = append(cd.offs, b.Len())
		switch t[0] {
		case "[", "{":
			if cd.expected == nil {
				cd.rootOff = b.Len()
			}
			b.WriteString(t[0])
			n := &jsonx.CTree{Kind: 'L'}
			if t[0] == "{" {
				n.Kind = 'O'
			}
			if cd.expected == nil {
				cd.expected = n
				cd.root = n.Kind
			} else {
				push(n)
			}
			stack = append(stack, &frame{node: n})
		case "]", "}":
			b.WriteString(t[0])
			if len(stack) > 0 {
				stack = stack[:len(stack)-1]
			}
		case ",", ":":
			b.WriteString(t[0])
		case "ws":
			b.WriteString(jsonx.WsText[t[1]])
		case "pre":
			b.WriteString(jsonx.PreText[t[1]])
		case "lit":
			b.WriteString(t[1])
			switch t[1] {
			case "true":
				push(&jsonx.CTree{Kind: 'b', B: true})
			case "false":
				push(&jsonx.CTree{Kind: 'b', B: false})
			default:
				push(&jsonx.CTree{Kind: 'z'})
			}
		case "num":
			lits, ok := jsonx.NumLits[t[1]]
			if !ok {
				return nil, fmt.Errorf("unknown number literal class %q", t[1])
			}
			lit := lits[((next()%len(lits))+len(lits))%len(lits)]
			b.WriteString(lit)
			n, err := jsonx.NumberRule(lit)
			if err != nil {
				return nil, err
			}
			if n.IsFloat {
				push(&jsonx.CTree{Kind: 'f', F: n.F})
			} else {
				push(&jsonx.CTree{Kind: 'i', I: n.I})
			}
		case "str", "key":
			cls, sp := t[1], "raw"
			if i := strings.IndexByte(cls, '~'); i >= 0 {
				cls, sp = cls[:i], cls[i+1:]
			}
			var s string
			f := (*frame)(nil)
			if len(stack) > 0 {
				f = stack[len(stack)-1]
			}
			if t[0] == "key" && cls == "dup" && f != nil && f.haveKey {
				s = f.firstKey
			} else {
				if cls == "dup" {
					cls = "ascii"
				}
				s = jsonx.StrMember(cls, next())
			}
			b.WriteByte('"')
			b.WriteString(jsonx.SpellString(s, sp, p.Rng))
			b.WriteByte('"')
			if t[0] == "key" {
				if f != nil {
					if !f.haveKey {
						f.haveKey, f.firstKey = true, s
					}
					f.key = s
				}
			} else {
				push(&jsonx.CTree{Kind: 's', S: s})
			}
		case "bad":
			switch t[1] {
			case "@":
				b.WriteString("@")
			case "lit":
				b.WriteString([]string{"1@", "tru", "1.2.3", "nul", "--1"}[((next()%5)+5)%5])
			case ";":
				b.WriteString(";")
			case "ukey":
				b.WriteString("k")
			}
		default:
			return nil, fmt.Errorf("unknown token %v", t)
		}
	}
	cd.offs = append(cd.offs, b.Len())
	cd.text = b.String()
	return cd, nil
}

func checkParseValid(cd *concDoc) error {
	return guard(func() error {
		body := cd.text[cd.rootOff:]
		// the generator itself is validated by two independent decoders
		std, err := jsonx.StdParse(body)
		if err != nil {
			return fmt.Errorf("ORACLE: encoding/json rejects the generated document: %v", err)
		}
		if err := jsonx.EqualTreeOrdered(cd.expected, std, "$"); err != nil {
			return fmt.Errorf("ORACLE: encoding/json reads the generated document differently: %v", err)
		}
		strict, err := jsonx.StrictParse(body)
		if err != nil {
			return fmt.Errorf("ORACLE: strict reader rejects the generated document: %v", err)
		}
		if err := jsonx.EqualTreeOrdered(cd.expected, strict, "$"); err != nil {
			return fmt.Errorf("ORACLE: strict reader reads the generated document differently: %v", err)
		}
		want := cd.expected.LastWins()
		for vi, text := range []string{cd.text, cd.text + "  trailing ] } text", cd.text + "\n"} {
			// a rejected text parsed just before (same goroutine) must not influence how the valid one is read
			poisonBefore(len(cd.text) + vi)
			p, err := jsonx.Parse(cd.root, text)
			if err != nil {
				return fmt.Errorf("valid document rejected (variant %d, parsed right after the rejected text %q): %v", vi, poisons[(len(cd.text)+vi)%len(poisons)], err)
			}
			got, err := jsonx.Project(p)
			if err != nil {
				return fmt.Errorf("parsed container cannot be read: %v", err)
			}
			if err := jsonx.EqualTree(want, got, "$"); err != nil {
				return fmt.Errorf("parsed tree differs from the reference decoder (variant %d, parsed right after the rejected text %q): %v", vi, poisons[(len(cd.text)+vi)%len(poisons)], err)
			}
			// what a caller does to a parsed container must not leak into later parses
			growAll(p)
		}
		return nil
	})
}

// rejected texts that stop in the middle of a literal, an escape, a key, a nested container
var poisons = []string{
	`["decoded so far \q rest"]`, `["abc\ud800","x"]`, `[1,2`, `[1,"ab`, "[\"caf\xc3", `{"k\q":1}`, `{"a":tru`, `[[[`, `{"a":{"b":[1,`,
	`["\u12"]`, `[nul`, `[1e]`, `{"key`, `{"a":"v\`, `[12345678901234567890123,`, `{"a":[1,2,{"b":"c\u00`, `["ok","\ud83d\u00e9"]`, `[-`,
}

func poisonBefore(n int) {
	t := poisons[n%len(poisons)]
	func() {
		defer func() { recover() }() // totality is C04's business
		if t[0] == '[' {
			at.ParseList(t)
		} else {
			at.ParseObject(t)
		}
	}()
}

// growAll adds an element / a field to every container of a parsed result.
func growAll(x any) {
	switch v := x.(type) {
	case at.List:
		for i := 0; i < v.Count(); i++ {
			growAll(v.Get(i))
		}
		v.Add("grown-by-the-caller")
	case at.Object:
		v.ForEachValue(func(e any) { growAll(e) })
		v.Set("grown-by-the-caller", true)
	}
}

func cmdParse(args []string) int {
	fs := flag.NewFlagSet("parse", flag.ExitOnError)
	in := fs.String("in", "", "TLC output with valid document records")
	prop := fs.String("prop", "C03", "property id")
	seed := fs.Int64("seed", 1, "seed")
	picks := fs.Int("picks", 2, "concretisations per document")
	cps := fs.String("codepoints", "sample", "all|sample|none")
	workers := fs.Int("workers", 16, "goroutines")
	out := fs.String("out", "", "summary file")
	replayDir := fs.String("replaydir", "", "replay dir")
	fs.Parse(args)
	start := time.Now()
	docs, err := loadDocs(*in)
	if err != nil || len(docs) == 0 {
		fmt.Fprintln(os.Stderr, "parse: cannot load documents:", err)
		return 2
	}
	st := newDocStats()
	oracleTrouble := int32(0)
	var curTree sync.Map
	report := func(input string, err error) {
		msg := err.Error()
		if strings.HasPrefix(msg, "ORACLE") {
			atomic.AddInt32(&oracleTrouble, 1)
		}
		sig := msg
		if len(sig) > 120 {
			sig = sig[:120]
		}
		var tr *jsonx.CTree
		if t, ok := curTree.Load(input); ok {
			tr = t.(*jsonx.CTree)
		}
		st.fail(&docViolation{Property: *prop, Message: msg, Sig: "parse: " + sig, Check: "parse", Input: input, Text: input, Seed: *seed, Tree: tr})
	}
	parallel(len(docs), *workers, func(i int) {
		if st.nviol() > 0 {
			return
		}
		for k := 0; k < *picks; k++ {
			p := jsonx.NewPicker(*seed*7919+int64(i)*31+int64(k), int(*seed)+i+k*13)
			cd, err := concretiseDoc(docs[i], p, false)
			if err != nil {
				report("concretise", fmt.Errorf("ORACLE: %v", err))
				return
			}
			atomic.AddInt64(&st.evals, 1)
			st.seen(cd.text)
			if i%1499 == 0 && k == 0 {
				st.sample(cd.text)
			}
			if err := checkParseValid(cd); err != nil {
				curTree.Store(cd.text, cd.expected)
				report(cd.text, err)
				return
			}
		}
	})
	// every code point in every escape spelling, as value and as key
	cpCount := 0
	if *cps != "none" && st.nviol() == 0 {
		var runes []rune
		rng := rand.New(rand.NewSource(*seed))
		for r := rune(0); r <= 0x10ffff; r++ {
			if r >= 0xd800 && r <= 0xdfff {
				continue
			}
			if *cps == "all" || r < 0x800 || (r >= 0x2000 && r < 0x2100) || (r >= 0xfff0 && r <= 0x1000f) || r >= 0x10fff0 || (r >= 0xe0000 && r < 0xe0080) || rng.Intn(50) == 0 {
				runes = append(runes, r)
			}
		}
		cpCount = len(runes)
		parallel(len(runes), *workers, func(i int) {
			if st.nviol() > 0 {
				return
			}
			r := runes[i]
			s := "x" + string(r) + "y"
			rng := rand.New(rand.NewSource(int64(r)))
			for _, sp := range []string{"raw", "short", "ulow", "uup"} {
				lit := `"` + jsonx.SpellString(s, sp, rng) + `"`
				lone := `"` + jsonx.SpellString(string(r), sp, rng) + `"`
				docsT := []struct {
					text string
					exp  *jsonx.CTree
				}{
					{"[" + lit + ", " + lone + "]", &jsonx.CTree{Kind: 'L', Elems: []*jsonx.CTree{{Kind: 's', S: s}, {Kind: 's', S: string(r)}}}},
					{"{" + lit + ":" + lone + "}", &jsonx.CTree{Kind: 'O', Keys: []string{s}, Elems: []*jsonx.CTree{{Kind: 's', S: string(r)}}}},
				}
				for _, dt := range docsT {
					cd := &concDoc{text: dt.text, expected: dt.exp, root: dt.exp.Kind}
					atomic.AddInt64(&st.evals, 1)
					if err := checkParseValid(cd); err != nil {
						curTree.Store(dt.text, dt.exp)
						report(dt.text, err)
						return
					}
				}
			}
		})
		st.mu.Lock()
		for _, r := range runes {
			st.distinct[uint64(r)|1<<40] = struct{}{}
		}
		st.mu.Unlock()
	}
	rc := finishDocs(*prop, st, *out, *replayDir, map[string]any{"tlc_documents": len(docs), "picks": *picks, "code_points": cpCount,
		"wall_s": time.Since(start).Seconds(), "oracle_trouble": oracleTrouble})
	if oracleTrouble > 0 {
		fmt.Fprintln(os.Stderr, "parse: the generator / reference decoders disagree with each other: no verdict")
		return 2
	}
	return rc
}

// ---------------------------------------------------------------------------------------------
// C04: totality, exclusivity, determinism; cut points; ill-formed UTF-8; ParseFile.
// ---------------------------------------------------------------------------------------------

type watchdog struct {
	mu      sync.Mutex
	current map[int]string
	since   map[int]time.Time
	hung    chan string
}

func newWatchdog() *watchdog {
	w := &watchdog{current: map[int]string{}, since: map[int]time.Time{}, hung: make(chan string, 1)}
	go func() {
		for {
			time.Sleep(500 * time.Millisecond)
			w.mu.Lock()
			for id, t := range w.since {
				if time.Since(t) > 20*time.Second {
					select {
					case w.hung <- w.current[id]:
					default:
					}
				}
			}
			w.mu.Unlock()
		}
	}()
	return w
}

func (w *watchdog) enter(id int, input string) {
	w.mu.Lock()
	w.current[id] = input
	w.since[id] = time.Now()
	w.mu.Unlock()
}
func (w *watchdog) leave(id int) {
	w.mu.Lock()
	delete(w.since, id)
	w.mu.Unlock()
}

type outcome struct {
	ok     bool
	errMsg string
	text   string
}

// callParser runs one entry point; returns an error describing a contract violation, if any.
// callWD, if set, times every single parser call (slot ids from a counter: calls run on many goroutines)
var callWD *watchdog
var callWDSeq int64

func callParser(entry string, input string) (outcome, error) {
	var o outcome
	if w := callWD; w != nil {
		id := int(atomic.AddInt64(&callWDSeq, 1)%100000) + 10000
		w.enter(id, input)
		defer w.leave(id)
	}
	err := guard(func() error {
		var c any
		var err error
		var isNil bool
		switch entry {
		case "ParseList":
			l, e := at.ParseList(input)
			c, err, isNil = l, e, l == nil
		case "ParseObject":
			ob, e := at.ParseObject(input)
			c, err, isNil = ob, e, ob == nil
		}
		if isNil && err == nil {
			return fmt.Errorf("%s returned (nil, nil)", entry)
		}
		if !isNil && err != nil {
			return fmt.Errorf("%s returned a container together with an error (%v)", entry, err)
		}
		if err != nil {
			o.errMsg = err.Error()
			return nil
		}
		o.ok = true
		o.text = jsonx.Str(c)
		if _, perr := jsonx.Project(c); perr != nil {
			return fmt.Errorf("%s returned a container that cannot be read: %v", entry, perr)
		}
		return nil
	})
	return o, err
}

func checkTotal(input string) error {
	for _, entry := range []string{"ParseList", "ParseObject"} {
		o1, err := callParser(entry, input)
		if err != nil {
			return err
		}
		o2, err := callParser(entry, input)
		if err != nil {
			return err
		}
		if o1.ok != o2.ok || o1.errMsg != o2.errMsg {
			return fmt.Errorf("%s is not deterministic: %v/%q then %v/%q", entry, o1.ok, o1.errMsg, o2.ok, o2.errMsg)
		}
		if o1.ok {
			a, _ := jsonx.Parse(entry[5], input)
			b, _ := jsonx.Parse(entry[5], input)
			if a == nil || b == nil || !jsonx.Equals(a, b) {
				return fmt.Errorf("%s is not deterministic: two calls return unequal containers", entry)
			}
		}
	}
	return nil
}

var illFormed = [][]byte{
	{0x80}, {0xbf}, {0xc3}, {0xe2, 0x82}, {0xf0, 0x9f, 0x98}, {0xc0, 0xaf}, {0xc1, 0x81}, {0xe0, 0x80, 0xaf}, {0xe0, 0x9f, 0xbf},
	{0xf0, 0x80, 0x80, 0xaf}, {0xf0, 0x8f, 0xbf, 0xbf}, {0xed, 0xa0, 0x80}, {0xed, 0xbf, 0xbf}, {0xf5, 0x80, 0x80, 0x80}, {0xf4, 0x90, 0x80, 0x80},
	{0xff}, {0xfe}, {0xf8, 0x88, 0x80, 0x80, 0x80},
	// lone bytes that are white space or controls when (mis)read as Latin-1 code points
	{0x85}, {0xa0}, {0x8a}, {0x9f},
}

// single bytes also injected right AFTER a white-space character (blank, tab, line feed, carriage return)
var illAfterSpace = [][]byte{{0x85}, {0xa0}, {0x80}, {0xff}, {0xc2}}

func cmdTotal(args []string) int {
	fs := flag.NewFlagSet("total", flag.ExitOnError)
	in := fs.String("in", "", "TLC output with document records (value trees)")
	prop := fs.String("prop", "C04", "property id")
	seed := fs.Int64("seed", 1, "seed")
	maxLen := fs.Int("strlen", 4, "exhaustive byte strings up to this length")
	randN := fs.Int("random", 20000, "random byte strings")
	picks := fs.Int("picks", 1, "concretisations per document")
	workers := fs.Int("workers", 16, "goroutines")
	out := fs.String("out", "", "summary file")
	replayDir := fs.String("replaydir", "", "replay dir")
	fs.Parse(args)
	start := time.Now()
	st := newDocStats()
	wd := newWatchdog()
	callWD = wd
	report := func(check, input string, err error) {
		msg := err.Error()
		sig := msg
		if len(sig) > 100 {
			sig = sig[:100]
		}
		st.fail(&docViolation{Property: *prop, Message: msg, Sig: check + ": " + sig, Check: check, Input: strconv.Quote(input), Text: input, Seed: *seed})
	}
	reportT := func(check string, ct *jsonx.CTree, how int, err error) {
		msg := err.Error()
		sig := msg
		if len(sig) > 100 {
			sig = sig[:100]
		}
		st.fail(&docViolation{Property: *prop, Message: msg, Sig: check + ": " + sig, Check: check, Input: ct.String(), Seed: *seed, Tree: ct, How: how})
	}
	done := make(chan struct{})
	go func() {
		select {
		case h := <-wd.hung:
			report("termination", h, fmt.Errorf("a single parser call did not return within 20 s on input %q", h))
			finishDocs(*prop, st, *out, *replayDir, map[string]any{"hang": true})
			fmt.Printf("MISMATCH property=%s :: parser hangs on %q\n", *prop, h)
			os.Exit(1)
		case <-done:
		}
	}()
	// (1) all byte strings over a 16-byte alphabet
	alpha := []byte{'{', '}', '[', ']', ',', ':', '"', '\\', ' ', '\n', '1', 't', '@', 0x80, 0xc3, 0xf5}
	var total int64 = 1
	counts := []int64{1}
	for l := 1; l <= *maxLen; l++ {
		total *= int64(len(alpha))
		counts = append(counts, total)
	}
	var exhaustive int64
	for l := 0; l <= *maxLen; l++ {
		n := int(counts[l])
		l := l
		chunk := 4096
		parallel((n+chunk-1)/chunk, *workers, func(ci int) {
			if st.nviol() > 0 {
				return
			}
			buf := make([]byte, l)
			for x := ci * chunk; x < (ci+1)*chunk && x < n; x++ {
				v := x
				for j := 0; j < l; j++ {
					buf[j] = alpha[v%len(alpha)]
					v /= len(alpha)
				}
				s := string(buf)
				wd.enter(ci%64+1000*l, s)
				err := checkTotal(s)
				wd.leave(ci%64 + 1000*l)
				if err != nil {
					report("total", s, err)
					return
				}
			}
		})
		exhaustive += int64(n)
	}
	atomic.AddInt64(&st.evals, exhaustive*2)
	// random byte strings up to 64 bytes (biased to JSON-ish bytes)
	parallel(*randN, *workers, func(i int) {
		if st.nviol() > 0 {
			return
		}
		rng := rand.New(rand.NewSource(*seed*7 + int64(i)))
		n := rng.Intn(64)
		b := make([]byte, n)
		for j := range b {
			if rng.Intn(4) == 0 {
				b[j] = byte(rng.Intn(256))
			} else {
				b[j] = alpha[rng.Intn(len(alpha))]
			}
		}
		s := string(b)
		wd.enter(i%64, s)
		err := checkTotal(s)
		wd.leave(i % 64)
		atomic.AddInt64(&st.evals, 2)
		if err != nil {
			report("total", s, err)
		}
	})
	// inputs assembled from escape / literal fragments (partial \\u escapes, surrogate halves, exponents ...)
	frags := []string{"[", "]", "{", "}", ",", ":", "\"", "\\", "\\u", "d83d", "de0", "00", "0", "x", " ", "\n", "1", "e", "+", "-", ".", "true", "nul", "\\ud83d\\ude00", "\\ud83d\\ude0", "\\u12"}
	nf := len(frags)
	fragTotal := nf * nf * nf * nf
	if *maxLen < 5 {
		fragTotal = nf * nf * nf
	}
	parallel((fragTotal+4095)/4096, *workers, func(ci int) {
		if st.nviol() > 0 {
			return
		}
		for x := ci * 4096; x < (ci+1)*4096 && x < fragTotal; x++ {
			v := x
			var b strings.Builder
			for j := 0; j < 4; j++ {
				if j == 3 && *maxLen < 5 {
					break
				}
				b.WriteString(frags[v%nf])
				v /= nf
			}
			for _, s := range []string{"[\"" + b.String() + "\"]", "{\"" + b.String() + "\":1}", "[" + b.String() + "]"} {
				wd.enter(3000+ci%64, s)
				err := checkTotal(s)
				wd.leave(3000 + ci%64)
				if err != nil {
					report("total", s, err)
					return
				}
			}
		}
	})
	atomic.AddInt64(&st.evals, int64(fragTotal)*6)
	// (2)-(4) on serialised documents
	var docs []*docRec
	if *in != "" {
		var err error
		docs, err = loadDocs(*in)
		if err != nil {
			fmt.Fprintln(os.Stderr, "total: cannot load documents:", err)
			return 2
		}
	}
	cc := &cutCounters{}
	tmpdir, _ := os.MkdirTemp("", "vh-total-")
	defer os.RemoveAll(tmpdir)
	cc.tmpdir = tmpdir
	cutDoc := func(ct *jsonx.CTree, how int) error { return cutDocCheck(ct, how, cc) }
	parallel(len(docs), *workers, func(i int) {
		if st.nviol() > 0 {
			return
		}
		for k := 0; k < *picks; k++ {
			p := jsonx.NewPicker(*seed*7919+int64(i)*31+int64(k), int(*seed)+i+k*13)
			ct := jsonx.Concretise(docs[i].Tree, p)
			st.seen(ct.String())
			err := cutDoc(ct, (i+k)%3)
			if err != nil {
				reportT("cut", ct, (i+k)%3, err)
				return
			}
		}
	})
	// hand-picked shapes every run: strings that end in a backslash followed by strings with brackets
	special := []*jsonx.CTree{
		{Kind: 'L', Elems: []*jsonx.CTree{{Kind: 's', S: "C:\\data\\"}, {Kind: 's', S: "see [1] and [2]"}}},
		{Kind: 'O', Keys: []string{"paths"}, Elems: []*jsonx.CTree{{Kind: 'L', Elems: []*jsonx.CTree{{Kind: 's', S: "C:\\tmp\\"}, {Kind: 's', S: "{\"ids\":[1,2]}"}}}}},
		{Kind: 'L', Elems: []*jsonx.CTree{{Kind: 's', S: "\\\""}, {Kind: 's', S: "]"}, {Kind: 'L'}, {Kind: 's', S: "\"]"}}},
		{Kind: 'O', Keys: []string{"k\\", "}"}, Elems: []*jsonx.CTree{{Kind: 's', S: "}"}, {Kind: 'O', Keys: []string{"\\"}, Elems: []*jsonx.CTree{{Kind: 's', S: "\\\\"}}}}},
	}
	rngD := rand.New(rand.NewSource(*seed))
	for i := 0; i < 200; i++ {
		special = append(special, randomTree(rngD, 2+rngD.Intn(4)))
	}
	parallel(len(special), *workers, func(i int) {
		if st.nviol() > 0 {
			return
		}
		st.seen(special[i].String())
		if err := cutDoc(special[i], i%3); err != nil {
			reportT("cut", special[i], i%3, err)
		}
	})
	// file contents that String() never produces: raw line breaks inside strings, very long single lines
	if st.nviol() == 0 {
		long := "{\"k\":[" + strings.Repeat("1234567,", 12000) + "1],\"s\":\"" + strings.Repeat("x", 70000) + "\"}"
		for _, content := range []string{"{\"k\":\"x\r\ny\"}", "{\"a\r\nb\":1}", "{\"k\":\"x\ny\",\n\"l\":[1,\r\n2]}", long, long + "\n@", "\r\n" + long[:len(long)/2],
			"{\"k\":\"tab\there\"}", "{\"k\":1}\r\n", "\ufeff{\"k\":\"\ufeff\"}", "{\"k\":\"a\u2028b\"}\n"} {
			if err := checkFileEq(cc, content); err != nil {
				c := content
				if len(c) > 200 {
					c = c[:200] + "..."
				}
				report("file", c, err)
				break
			}
		}
	}
	// big files cut just behind the block sizes a chunked reader may use; the text is such that stale bytes of an earlier
	// block (a shifted copy of the same pattern) could close the document
	if st.nviol() == 0 {
		full := "{\"k\":\"" + strings.Repeat("ab\\\"}", 30000) + "\"}"
	cutLoop:
		for _, chunk := range []int{4096, 8192, 16384, 32768, 65536, 131072} {
			for delta := 1; delta <= 6; delta++ {
				if chunk+delta >= len(full) {
					continue
				}
				if err := checkFileEq(cc, full[:chunk+delta]); err != nil {
					report("file", fmt.Sprintf("the first %d bytes of a %d-byte document %q...", chunk+delta, len(full), full[:40]), err)
					break cutLoop
				}
			}
		}
		if err := checkFileEq(cc, full); err != nil && st.nviol() == 0 {
			report("file", fmt.Sprintf("%d-byte document %q...", len(full), full[:40]), err)
		}
	}
	// missing / unreadable paths
	if st.nviol() == 0 {
		for _, p := range []string{filepath.Join(tmpdir, "does-not-exist.json"), tmpdir, ""} {
			if err := guard(func() error {
				o, err := at.ParseFile(p)
				if o != nil || err == nil {
					return fmt.Errorf("ParseFile(%q) on an unreadable path returned (%v, %v)", p, o != nil, err)
				}
				return nil
			}); err != nil {
				report("file", p, err)
			}
		}
	}
	close(done)
	atomic.AddInt64(&st.evals, cc.cuts+cc.inj+cc.files)
	st.mu.Lock()
	for i := int64(0); i < exhaustive && i < 1<<22; i++ {
		st.distinct[uint64(i)|1<<41] = struct{}{}
	}
	st.mu.Unlock()
	st.sample(fmt.Sprintf("all %d byte strings of length <= %d over %q", exhaustive, *maxLen, string(alpha)))
	return finishDocs(*prop, st, *out, *replayDir, map[string]any{"byte_strings_exhaustive": exhaustive, "max_len": *maxLen, "random_strings": *randN,
		"tlc_documents": len(docs), "cut_points": cc.cuts, "utf8_injections": cc.inj, "file_checks": cc.files, "wall_s": time.Since(start).Seconds()})
}

type cutCounters struct {
	cuts, inj, files, fileSeq int64
	tmpdir                    string
}

func checkFileEq(cc *cutCounters, content string) error {
	n := atomic.AddInt64(&cc.fileSeq, 1)
	p := filepath.Join(cc.tmpdir, fmt.Sprintf("f%d.json", n))
	if err := os.WriteFile(p, []byte(content), 0o644); err != nil {
		return nil
	}
	defer os.Remove(p)
	return guard(func() error {
		fo, ferr := at.ParseFile(p)
		oo, oerr := at.ParseObject(content)
		if (fo == nil) != (oo == nil) || (ferr == nil) != (oerr == nil) {
			return fmt.Errorf("ParseFile and ParseObject disagree on %s: (%v,%v) vs (%v,%v)", clip(content), fo != nil, ferr, oo != nil, oerr)
		}
		if fo == nil && ferr == nil {
			return fmt.Errorf("ParseFile returned (nil, nil) for %s", clip(content))
		}
		if ferr != nil && ferr.Error() != oerr.Error() {
			return fmt.Errorf("ParseFile error %q differs from ParseObject error %q for %s", ferr, oerr, clip(content))
		}
		if fo != nil && (!fo.Equals(oo) || !oo.Equals(fo)) {
			return fmt.Errorf("ParseFile result differs from ParseObject result for %s", clip(content))
		}
		if fo != nil {
			// what the caller does with the result must not show in a later ParseFile of the same, unchanged file
			growAll(fo)
			fo.Set("changed-by-the-caller", 1)
			fo2, ferr2 := at.ParseFile(p)
			if fo2 == nil || ferr2 != nil || !fo2.Equals(oo) || !oo.Equals(fo2) {
				got := "nil"
				if fo2 != nil {
					got = fo2.String()
				}
				return fmt.Errorf("a second ParseFile of the unchanged file (after the first result had been modified by the caller) returns %s, %v; the file holds %s", clip(got), ferr2, clip(content))
			}
			if fo3, _ := at.ParseFile(p); fo3 == nil || fo3 == fo2 || !fo3.Equals(oo) {
				return fmt.Errorf("a third ParseFile of the unchanged file returns the same instance as the second or other content for %s", clip(content))
			}
		}
		return nil
	})
}

// cutDocCheck: every proper prefix of String() rejected, ill-formed UTF-8 rejected, ParseFile == ParseObject.
func cutDocCheck(ct *jsonx.CTree, how int, cc *cutCounters) error {
	if cc == nil {
		cc = &cutCounters{}
		cc.tmpdir, _ = os.MkdirTemp("", "vh-cut-")
		defer os.RemoveAll(cc.tmpdir)
	}
	var text string
	if err := guard(func() error { text = jsonx.Str(jsonx.Build(ct, how)); return nil }); err != nil {
		return err
	}
	entry := "ParseList"
	if ct.Kind == 'O' {
		entry = "ParseObject"
	}
	if o, err := callParser(entry, text); err != nil || !o.ok {
		return fmt.Errorf("complete serialised document %q is not accepted (%v %v)", text, err, o.errMsg)
	}
	// long texts: every position up to 300 and in the last 100 bytes, around the block sizes, and every 37th in between
	dense := func(pos int) bool {
		if len(text) <= 600 || pos < 300 || pos > len(text)-100 || pos%37 == 0 {
			return true
		}
		for _, b := range []int{64, 128, 256, 512, 1024, 2048, 4096} {
			if pos >= b-3 && pos <= b+3 {
				return true
			}
		}
		return false
	}
	for cut := 0; cut < len(text); cut++ {
		if !dense(cut) {
			continue
		}
		o, err := callParser(entry, text[:cut])
		atomic.AddInt64(&cc.cuts, 1)
		if err != nil {
			return fmt.Errorf("prefix %q: %v", text[:cut], err)
		}
		if o.ok {
			return fmt.Errorf("truncated document accepted: %s(%q) returned %s with a nil error (full text %q)", entry, text[:cut], o.text, text)
		}
	}
	for pos := 1; pos < len(text); pos++ {
		if !dense(pos) {
			continue
		}
		for _, bad := range illFormed {
			mut := text[:pos] + string(bad) + text[pos:]
			if utf8.ValidString(mut) {
				continue
			}
			o, err := callParser(entry, mut)
			atomic.AddInt64(&cc.inj, 1)
			if err != nil {
				return fmt.Errorf("ill-formed UTF-8 %x at %d of %q: %v", bad, pos, text, err)
			}
			if o.ok {
				return fmt.Errorf("document with ill-formed UTF-8 accepted: %x inserted at byte %d of %q gives %s", bad, pos, text, o.text)
			}
		}
		for wi, ws := range []string{" ", "\t", "\n", "\r\n ", "  "} {
			if (pos+wi)%3 != 0 {
				continue // a third of the (position, white space) pairs
			}
			for _, bad := range illAfterSpace {
				mut := text[:pos] + ws + string(bad) + text[pos:]
				o, err := callParser(entry, mut)
				atomic.AddInt64(&cc.inj, 1)
				if err != nil {
					return fmt.Errorf("ill-formed UTF-8 %x after white space at %d of %q: %v", bad, pos, text, err)
				}
				if o.ok {
					return fmt.Errorf("document with ill-formed UTF-8 accepted: white space %q and the lone byte %x inserted at byte %d of %q gives %s", ws, bad, pos, text, o.text)
				}
			}
		}
	}
	if err := checkFileEq(cc, text); err != nil {
		return err
	}
	for _, pre := range []string{"\n\n", " \t", "\ufeff", "// c\n", "\r\n\r\n"} {
		if err := checkFileEq(cc, pre+text+"\n"); err != nil {
			return err
		}
		if len(text) > 2 {
			if err := checkFileEq(cc, pre+text[:len(text)/2]+"\n@"); err != nil {
				return err
			}
			if err := checkFileEq(cc, pre+text[:1]+"\n\n"+text[1:len(text)-1]+"\n bad"+text[len(text)-1:]); err != nil {
				return err
			}
		}
	}
	atomic.AddInt64(&cc.files, 16)
	return nil
}

// ---------------------------------------------------------------------------------------------
// C20: cited error lines.
// ---------------------------------------------------------------------------------------------

type errRec struct {
	Toks      [][2]string `json:"toks"`
	Bad       int         `json:"bad"`
	BadLine   int         `json:"badLine"`
	Delim     int         `json:"delim"`
	DelimLine int         `json:"delimLine"`
	Ctx       string      `json:"ctx"`
	Exp       string      `json:"exp"`
	Lines     []int       `json:"lines"`
}

var lineRe = regexp.MustCompile(`line (\d+)`)
var gotRe = regexp.MustCompile(`got '(.)'`)

type errStats struct{ judged, withLine, noError, hookUsed, beyond int64 }

var hookRemaining, hookLine, hookCalls int

func installStepHook() {
	at.VerifStepHook = func(machine int, state uint8, char rune, remaining int, line int) {
		hookRemaining, hookLine, hookCalls = remaining, line, hookCalls+1
	}
}

// errlineOne judges one TLC error record. Returns the text, a violation (or nil) and statistics.
func errlineOne(r *errRec, i int, seed int64, tmpdir string) (string, error, errStats) {
	var es errStats
	installStepHook()
	defer func() { at.VerifStepHook = nil }()
	d := &docRec{Toks: r.Toks}
	p := jsonx.NewPicker(seed+int64(i), int(seed)+i)
	cd, err := concretiseDoc(d, p, true)
	if err != nil {
		return "", fmt.Errorf("ORACLE: cannot concretise: %v", err), es
	}
	text := cd.text
	root := cd.root
	if root == 0 {
		return text, nil, es
	}
	lineAt := func(off int) int { return 1 + strings.Count(text[:off], "\n") }
	badOff := cd.offs[r.Bad-1]
	if lineAt(badOff) != r.BadLine {
		return text, fmt.Errorf("ORACLE: TLC line %d vs text line %d for %q", r.BadLine, lineAt(badOff), text), es
	}
	for _, entry := range []string{"direct", "file"} {
		if entry == "file" && (root != 'O' || i%4 != 0) {
			continue
		}
		hookCalls = 0
		var perr error
		if gerr := guard(func() error {
			if entry == "file" {
				p := filepath.Join(tmpdir, fmt.Sprintf("e%d.json", i))
				os.WriteFile(p, []byte(text), 0o644)
				defer os.Remove(p)
				_, perr = at.ParseFile(p)
			} else {
				_, perr = jsonx.Parse(root, text)
			}
			return nil
		}); gerr != nil {
			return text, fmt.Errorf("parser panicked on %q: %v", text, gerr), es
		}
		es.judged++
		if perr == nil {
			es.noError++
			continue
		}
		m := lineRe.FindStringSubmatch(perr.Error())
		if m == nil {
			continue
		}
		es.withLine++
		cited, _ := strconv.Atoi(m[1])
		// window oracle (hook-free): from the bad token to the delimiter that terminates it
		lo, hi := r.BadLine, r.BadLine
		endOff := len(text)
		if r.Delim > 0 {
			hi = r.DelimLine
			endOff = cd.offs[r.Delim-1]
		} else if len(r.Lines) > 0 {
			hi = r.Lines[len(r.Lines)-1]
		}
		// where the machine actually was when it returned (exact, through the hook)
		detected := -1
		if hookCalls > 0 {
			if off := len(text) - hookRemaining; off >= 0 && off < len(text) {
				detected = off
			}
		}
		// The parser is more lenient than RFC 8259 in places (e.g. it skips a stray character after a string value): then
		// it reads past the injected token and reports whatever it meets later. The window rules below speak about an error
		// detected AT the injected token; an error detected beyond its terminating delimiter is judged by the exact rule only.
		beyond := detected > endOff
		if !beyond && (cited < lo || cited > hi) {
			return text, fmt.Errorf("%s: error %q cites line %d; the error position is on line %d (bad token) .. %d (terminating delimiter) of %q", entry, perr, cited, lo, hi, text), es
		}
		if beyond {
			es.beyond++
		} else if g := gotRe.FindStringSubmatch(perr.Error()); g != nil {
			// the message names the unexpected character: its first occurrence at/after the bad token
			if idx := strings.Index(text[badOff:], g[1]); idx >= 0 && badOff+idx <= endOff {
				if want := lineAt(badOff + idx); cited != want {
					return text, fmt.Errorf("%s: error %q names character %q which stands on line %d, but cites line %d in %q", entry, perr, g[1], want, cited, text), es
				}
			}
		} else if strings.Contains(perr.Error(), "invalid value") && r.Delim > 0 {
			if cited != r.DelimLine {
				return text, fmt.Errorf("%s: error %q reports an invalid literal terminated on line %d, but cites line %d in %q", entry, perr, r.DelimLine, cited, text), es
			}
		}
		// exact oracle through the hook: the character the machine was looking at when it returned
		if detected >= 0 {
			es.hookUsed++
			off := detected
			{
				want := lineAt(off)
				if text[off] == '\n' {
					want++ // the machine counts a newline before it handles it
				}
				if cited != want {
					return text, fmt.Errorf("error %q cites line %d; the machine detected it at byte %d (%q) which is on line %d of %q", perr, cited, off, text[off], want, text), es
				}
			}
		}
	}
	// the same text with escape sequences that denote (but are not) line breaks in every string, and with raw line feeds
	// at the places inside strings where a parser that copies runs or folds escapes may lose count
	for _, v := range []string{escapeVariant(text), rawLFVariant(text)} {
		if v == text {
			continue
		}
		judged, err := hookOracle(root, v)
		if judged {
			es.judged++
			es.hookUsed++
		}
		if err != nil {
			return v, err, es
		}
	}
	return text, nil, es
}

// hookOracle: for any text at all, a cited line must be the line of the byte the state machine was handling when it
// returned the error (verifStep hook; the machine counts a newline before it handles it).
func hookOracle(root byte, text string) (judged bool, err error) {
	installStepHook()
	defer func() { at.VerifStepHook = nil }()
	hookCalls = 0
	var perr error
	if gerr := guard(func() error {
		_, perr = jsonx.Parse(root, text)
		return nil
	}); gerr != nil {
		return false, fmt.Errorf("parser panicked on %s: %v", clip(text), gerr)
	}
	if perr == nil {
		return false, nil
	}
	m := lineRe.FindStringSubmatch(perr.Error())
	if m == nil || hookCalls == 0 {
		return false, nil
	}
	cited, _ := strconv.Atoi(m[1])
	off := len(text) - hookRemaining
	if off < 0 || off >= len(text) {
		return false, nil
	}
	want := 1 + strings.Count(text[:off], "\n")
	if text[off] == '\n' {
		want++
	}
	if cited != want {
		return true, fmt.Errorf("error %q cites line %d; the machine detected it at byte %d (%q) which is on line %d of %s", perr, cited, off, text[off], want, clip(text))
	}
	return true, nil
}

func clip(text string) string {
	if len(text) <= 300 {
		return strconv.Quote(text)
	}
	return fmt.Sprintf("%q … (%d bytes, %d newlines) … %q", text[:120], len(text), strings.Count(text, "\n"), text[len(text)-120:])
}

// escapeVariant rewrites every string literal "abc" of a text into "\nabc\u000a" (escape sequences that DENOTE newlines
// but are none): the line of every byte stays what it was.
func escapeVariant(text string) string {
	var b strings.Builder
	in := false
	for i := 0; i < len(text); i++ {
		c := text[i]
		switch {
		case in && c == '\\' && i+1 < len(text):
			b.WriteByte(c)
			i++
			b.WriteByte(text[i])
		case c == '"' && !in:
			in = true
			// ... and characters whose code points end in the byte 0x0A (U+010A, U+4E0A, U+200A, U+1F60A): no line breaks either
			b.WriteString("\"\\n\u010a\u4e0a\u200a\U0001f60a")
		case c == '"' && in:
			in = false
			b.WriteString("\\u000a\\r\"")
		default:
			b.WriteByte(c)
		}
	}
	return b.String()
}

// rawLFVariant puts RAW line feeds into every string literal: right after the opening quote (followed by plain characters),
// after an escape sequence, after a non-ASCII character and right after a backslash. Whatever the parser makes of such
// strings, every raw line feed is a line break of the text, and the exact rule (hookOracle) still applies.
func rawLFVariant(text string) string {
	var b strings.Builder
	in := false
	for i := 0; i < len(text); i++ {
		c := text[i]
		switch {
		case in && c == '\\' && i+1 < len(text):
			b.WriteByte(c)
			i++
			b.WriteByte(text[i])
		case c == '"' && !in:
			in = true
			b.WriteString("\"\nxy\\t\nzz\u00e9\nab")
		case c == '"' && in:
			in = false
			b.WriteString("q\\\nrs\"")
		default:
			b.WriteByte(c)
		}
	}
	return b.String()
}

// errlineFixed: errors far down (beyond 65 535 and 131 072 lines), behind escapes that denote line breaks, raw CR LF.
func errlineFixed() []struct {
	root byte
	text string
} {
	nl := func(n int) string { return strings.Repeat("\n", n) }
	var out []struct {
		root byte
		text string
	}
	add := func(root byte, text string) {
		out = append(out, struct {
			root byte
			text string
		}{root, text})
	}
	for _, n := range []int{254, 255, 256, 65534, 65535, 65536, 70003, 131075} {
		add('L', nl(n)+"[1,@]")
		add('L', "["+nl(n)+"@]")
		add('L', "[[1,"+nl(n)+"[2,\n;]]]")
		add('O', "preamble"+nl(n)+"{\"a\":tru,\n\"b\":1}")
		add('O', "{\"a\":{\"b\":["+strings.Repeat("1,\n", n)+"x]}}")
		add('O', "{\"k\":\""+nl(n)+"\" ; 1}")
	}
	for _, s := range []string{
		"[\"a\\nb\",\n\"c\\u000ad\",\n@]", "{\"k\\n\":1,\n\"l\\u000A\":2,\n\"m\" 3}", "[\"\\\\n\",\n\"\\r\\n\\r\\n\",\n[\"x\\n\",\ntru]]",
		"[1,\r\n2,\r\n@]", "[\"raw\nnewline\",\n\"\\n\",\n;]", "{\"a\":\"\\n\\n\\n\",\n\"b\":[\"\\n\"\n,nul]}",
	} {
		if s[0] == '[' {
			add('L', s)
		} else {
			add('O', s)
		}
	}
	return out
}

func cmdErrLine(args []string) int {
	fs := flag.NewFlagSet("errline", flag.ExitOnError)
	in := fs.String("in", "", "TLC output with error records")
	prop := fs.String("prop", "C20", "property id")
	seed := fs.Int64("seed", 1, "seed")
	out := fs.String("out", "", "summary file")
	replayDir := fs.String("replaydir", "", "replay dir")
	fs.Parse(args)
	start := time.Now()
	recs, err := loadErrRecs(*in)
	if err != nil || len(recs) == 0 {
		fmt.Fprintln(os.Stderr, "errline: cannot load records:", err)
		return 2
	}
	st := newDocStats()
	tmpdir, _ := os.MkdirTemp("", "vh-errline-")
	defer os.RemoveAll(tmpdir)
	var tot errStats
	// the parser hook is a package-level variable: records are judged serially
	for i, r := range recs {
		text, verr, es := errlineOne(r, i, *seed, tmpdir)
		tot.judged += es.judged
		tot.withLine += es.withLine
		tot.noError += es.noError
		tot.hookUsed += es.hookUsed
		tot.beyond += es.beyond
		st.evals += es.judged
		st.seen(text)
		if i%997 == 0 {
			st.sample(text)
		}
		if verr != nil {
			if strings.HasPrefix(verr.Error(), "ORACLE") {
				fmt.Fprintln(os.Stderr, "errline:", verr)
				return 2
			}
			msg := verr.Error()
			sig := msg
			if len(sig) > 100 {
				sig = sig[:100]
			}
			st.fail(&docViolation{Property: *prop, Message: msg, Sig: "errline: " + sig, Check: "errline", Input: strconv.Quote(text), Text: text, Seed: *seed, Rec: r, Index: i})
			break
		}
	}
	fixed := 0
	if st.nviol() == 0 {
		for _, f := range errlineFixed() {
			judged, verr := hookOracle(f.root, f.text)
			if judged {
				fixed++
				st.evals++
			}
			if verr != nil {
				msg := verr.Error()
				sig := msg
				if len(sig) > 100 {
					sig = sig[:100]
				}
				st.fail(&docViolation{Property: *prop, Message: msg, Sig: "errline-fixed: " + sig, Check: "errline", Input: clip(f.text), Text: f.text, Seed: *seed})
				break
			}
		}
	}
	return finishDocs(*prop, st, *out, *replayDir, map[string]any{"tlc_records": len(recs), "fixed_far_down_texts_judged": fixed, "judged_calls": tot.judged, "errors_with_line": tot.withLine,
		"accepted_without_error": tot.noError, "hook_exact_checks": tot.hookUsed, "errors_detected_beyond_the_injected_token": tot.beyond, "wall_s": time.Since(start).Seconds()})
}

func init() {
	extraCmds["parse"] = cmdParse
	extraCmds["total"] = cmdTotal
	extraCmds["errline"] = cmdErrLine
}

func loadErrRecs(path string) ([]*errRec, error) {
	f, err := os.Open(path)
	if err != nil {
		return nil, err
	}
	defer f.Close()
	var out []*errRec
	rd := bufio.NewReaderSize(f, 1<<20)
	for {
		line, err := rd.ReadString('\n')
		if strings.HasPrefix(line, `"{`) {
			var inner string
			if e := json.Unmarshal([]byte(strings.TrimRight(line, "\r\n")), &inner); e != nil {
				return nil, e
			}
			var r errRec
			if e := json.Unmarshal([]byte(inner), &r); e != nil {
				return nil, fmt.Errorf("bad error record: %v: %.200s", e, inner)
			}
			if r.Bad > 0 {
				out = append(out, &r)
			}
		}
		if err != nil {
			break
		}
	}
	return out, nil
}
