package main

import (
	"encoding/json"
	"flag"
	"fmt"
	"math/rand"
	"os"
	"path/filepath"
	"sort"
	"strings"
	"sync"
	"sync/atomic"
	"time"

	"verif/harness/conc"
	"verif/harness/heapx"
	"verif/harness/model"
)

// replay: walk the TLC state graph of spec/HeapGraph.tla on the real library.

type stepRec struct {
	Op      model.Op     `json:"op"`
	Allowed []allowedRec `json:"allowed"`
	Matched int          `json:"matched"`
}
type allowedRec struct {
	P    bool       `json:"p"`
	Ret  model.Val  `json:"ret"`
	Heap model.Heap `json:"heap"`
}

type violation struct {
	Property string       `json:"property"`
	Message  string       `json:"message"`
	Sig      string       `json:"sig"`
	Conc     string       `json:"conc"`
	Seed     int64        `json:"seed"`
	Derived  int          `json:"derived"`
	NKeys    int          `json:"nkeys"`
	NStr     int          `json:"nstr"`
	Lits     []model.Cell `json:"lits"`
	Strs     []string     `json:"strs"`
	Steps    []stepRec    `json:"steps"`
	Phase    string       `json:"phase"`
	Replay   string       `json:"replay,omitempty"`
}

type replayCfg struct {
	prop     string
	concMode string
	seed     int64
	derived  int
	nkeys    int
	nstr     int
	lits     []model.Cell
	obs      heapx.ObsCfg
	obsEvery int
}

type runner struct {
	g   *model.Graph
	cfg replayCfg

	steps    int64
	skipped  int64
	ndetours int64
	calls    int64
	paths    int64
	mu       sync.Mutex
	distinct map[uint64]struct{}
	viol     []*violation
	stateHit []int32
	samples  [][]string
}

func (rn *runner) table(seed int64) *conc.Table {
	if rn.cfg.concMode == "tf" {
		return conc.NewTF(seed, rn.cfg.nstr)
	}
	return conc.New(rn.cfg.concMode, seed, rn.cfg.nstr)
}

func fnv(s string) uint64 {
	h := uint64(14695981039346656037)
	for i := 0; i < len(s); i++ {
		h ^= uint64(s[i])
		h *= 1099511628211
	}
	return h
}

// chooser returns the group index to take in state st at step k, or -1 to stop.
type chooser func(st *model.State, k int) int

// runPath executes one behaviour from the initial state.
func (rn *runner) runPath(ch chooser, seed int64, phase string, keep bool) (final *model.State, trace []string, v *violation) {
	g := rn.g
	t := rn.table(seed)
	real := heapx.New(t, rn.cfg.lits, rn.cfg.nkeys, rn.cfg.derived)
	cur := g.States[g.Init]
	var steps []stepRec
	local := map[uint64]struct{}{}
	fail := func(msg, sig string) *violation {
		return &violation{Property: rn.cfg.prop, Message: msg, Sig: sig, Conc: rn.cfg.concMode, Seed: seed, Derived: rn.cfg.derived,
			NKeys: rn.cfg.nkeys, NStr: rn.cfg.nstr, Lits: rn.cfg.lits, Strs: t.Strs, Steps: steps, Phase: phase}
	}
	defer func() {
		atomic.AddInt64(&rn.calls, int64(real.Calls))
		atomic.AddInt64(&rn.paths, 1)
		rn.mu.Lock()
		for k := range local {
			rn.distinct[k] = struct{}{}
		}
		rn.mu.Unlock()
	}()
	for k := 0; ; k++ {
		gi := ch(cur, k)
		if gi < 0 || gi >= len(cur.Groups) {
			break
		}
		grp := cur.Groups[gi]
		from := cur
		op := cur.Edges[grp[0]].O
		rec := stepRec{Op: op, Matched: -1}
		for _, ei := range grp {
			e := cur.Edges[ei]
			hp := cur.Heap
			if e.To >= 0 {
				hp = g.States[e.To].Heap
			}
			rec.Allowed = append(rec.Allowed, allowedRec{P: e.P, Ret: e.Ret, Heap: hp})
		}
		if !real.Executable(op) {
			// the operation names a container the harness never saw (garbage in the model): stop this behaviour
			atomic.AddInt64(&rn.skipped, 1)
			break
		}
		panicked, ret, pmsg := real.Exec(op)
		atomic.AddInt64(&rn.steps, 1)
		if keep {
			trace = append(trace, op.String())
		}
		var msgs []string
		matched := -1
		for ci, ei := range grp {
			e := cur.Edges[ei]
			f, rv := real.Snapshot()
			var m *heapx.Mismatch
			if e.P != panicked {
				if panicked {
					m = &heapx.Mismatch{Msg: fmt.Sprintf("operation panicked (%v), model: no panic", pmsg)}
				} else {
					m = &heapx.Mismatch{Msg: "operation did not panic, model: panic"}
				}
			}
			if m == nil && !e.P {
				m = real.CheckRet(e.Ret, ret, true)
			}
			if m == nil {
				hp := cur.Heap
				if e.To >= 0 {
					hp = g.States[e.To].Heap
				}
				m = real.Compare(hp)
			}
			if m == nil {
				matched = ci
				if e.To >= 0 {
					cur = g.States[e.To]
				}
				break
			}
			msgs = append(msgs, m.Msg)
			real.Restore(f, rv)
		}
		rec.Matched = matched
		steps = append(steps, rec)
		if matched < 0 {
			msg := fmt.Sprintf("step %d %s: no allowed successor matches the implementation: %s", k+1, op.String(), strings.Join(msgs, " | "))
			return cur, trace, fail(msg, "op="+op.Op+" "+msgs[0])
		}
		atomic.AddInt32(&rn.stateHit[cur.ID], 1)
		local[fnv(fmt.Sprintf("%d|%s", from.ID, op.Key()))] = struct{}{}
		last := ch(cur, k+1) < 0
		if rn.cfg.obsEvery > 0 && (last || (phase != "cover" && phase != "cover-detour" && k%rn.cfg.obsEvery == 0)) {
			if m := real.Observe(cur, rn.cfg.obs); m != nil {
				return cur, trace, fail(fmt.Sprintf("after step %d %s: observer: %s", k+1, op.String(), m.Msg), "observer after op="+op.Op+" "+m.Msg)
			}
			if m := real.Compare(cur.Heap); m != nil {
				return cur, trace, fail(fmt.Sprintf("after step %d %s: heap changed by read-only observers: %s", k+1, op.String(), m.Msg), "observers-mutate "+m.Msg)
			}
		}
	}
	return cur, trace, nil
}

func (rn *runner) report(v *violation) {
	rn.mu.Lock()
	defer rn.mu.Unlock()
	if len(rn.viol) < 20 {
		rn.viol = append(rn.viol, v)
	}
}

func (rn *runner) nviol() int {
	rn.mu.Lock()
	defer rn.mu.Unlock()
	return len(rn.viol)
}

// detours returns round trips s -> t -> s made of two deterministic operations on container r (Add;Pop,
// Insert;Delete, Reverse;Reverse, Sort;Reverse, Replace;Replace, Set;Unset ...): they leave the abstract heap as
// it was but may leave hidden state behind (spare capacity, cached flags). One per pair of operation kinds.
func (rn *runner) detours(s *model.State, r int) [][]model.Op {
	var out [][]model.Op
	seen := map[string]bool{}
	for _, grp := range s.Groups {
		e := s.Edges[grp[0]]
		if e.O.R != r || e.To < 0 || e.To == s.ID || len(grp) != 1 || e.P {
			continue
		}
		mid := rn.g.States[e.To]
		if len(mid.Heap) != len(s.Heap) {
			continue // allocating operations cannot be undone
		}
		for _, g2 := range mid.Groups {
			e2 := mid.Edges[g2[0]]
			if e2.O.R != r || e2.To != s.ID || len(g2) != 1 || e2.P {
				continue
			}
			key := e.O.Op + ";" + e2.O.Op
			if seen[key] {
				continue
			}
			seen[key] = true
			out = append(out, []model.Op{e.O, e2.O})
		}
	}
	return out
}

// pathTo returns the BFS-tree path (group indices) from the initial state to state s.
func (rn *runner) pathTo(s *model.State) []model.Op {
	var ops []model.Op
	for s.Parent >= 0 {
		p := rn.g.States[s.Parent]
		ops = append(ops, p.Edges[s.PEdge].O)
		s = p
	}
	for i, j := 0, len(ops)-1; i < j; i, j = i+1, j-1 {
		ops[i], ops[j] = ops[j], ops[i]
	}
	return ops
}

func groupOf(st *model.State, op model.Op) int {
	k := op.Key()
	for gi, grp := range st.Groups {
		if st.Edges[grp[0]].O.Key() == k {
			return gi
		}
	}
	return -1
}

func parallel(n int, workers int, f func(i int)) {
	var wg sync.WaitGroup
	var next int64 = -1
	for w := 0; w < workers; w++ {
		wg.Add(1)
		go func() {
			defer wg.Done()
			for {
				i := int(atomic.AddInt64(&next, 1))
				if i >= n {
					return
				}
				f(i)
			}
		}()
	}
	wg.Wait()
}

func cmdReplay(args []string) int {
	fs := flag.NewFlagSet("replay", flag.ExitOnError)
	graphFile := fs.String("graph", "", "TLC output with the state graph")
	prop := fs.String("prop", "", "property id")
	concMode := fs.String("conc", "plain", "concretisation: plain|weird|extreme|tf|rand")
	seed := fs.Int64("seed", 1, "seed")
	derived := fs.Int("derived", 0, "0 plain, 1/2 derived structs")
	nkeys := fs.Int("nkeys", 2, "number of key tokens")
	nstr := fs.Int("nstr", 3, "number of string tokens in use (ordered bytewise)")
	litsJSON := fs.String("lits", "[]", "literal cells (JSON)")
	obsList := fs.String("obs", "getters,equals,index", "observers: getters,equals,index,tf,strings,malform")
	obsEvery := fs.Int("obsevery", 1, "run observers every n-th step (0 = never)")
	tflen := fs.Int("tflen", 0, "tree-form read path length")
	maxlen := fs.Int("maxlen", 2, "max list length of the config (index alphabet of the read table)")
	depth := fs.Int("depth", 3, "exhaustive path depth")
	maxPaths := fs.Int64("maxpaths", 2000000, "cap for the exhaustive path walk")
	walks := fs.Int("walks", 1000, "random walks")
	walkLen := fs.Int("walklen", 30, "random walk length")
	cover := fs.Bool("cover", true, "execute every edge of the graph at least once")
	workers := fs.Int("workers", 16, "goroutines")
	out := fs.String("out", "", "summary JSON file")
	replayDir := fs.String("replaydir", "", "directory for replay files")
	budget := fs.Duration("budget", 10*time.Minute, "time budget")
	fs.Parse(args)

	f, err := os.Open(*graphFile)
	if err != nil {
		fmt.Fprintln(os.Stderr, "replay:", err)
		return 2
	}
	g, err := model.LoadGraph(f)
	f.Close()
	if err != nil {
		fmt.Fprintln(os.Stderr, "replay: cannot load graph:", err)
		return 2
	}
	var lits []model.Cell
	if err := json.Unmarshal([]byte(*litsJSON), &lits); err != nil {
		fmt.Fprintln(os.Stderr, "replay: bad -lits:", err)
		return 2
	}
	oc := heapx.ObsCfg{TFLen: *tflen, MaxLen: *maxlen}
	for _, o := range strings.Split(*obsList, ",") {
		switch o {
		case "getters":
			oc.Getters = true
		case "equals":
			oc.Equals = true
		case "index":
			oc.Index = true
		case "tf":
			oc.TF = true
		case "strings":
			oc.Strings = true
		case "malform":
			oc.Malform = true
		}
	}
	rn := &runner{g: g, cfg: replayCfg{prop: *prop, concMode: *concMode, seed: *seed, derived: *derived, nkeys: *nkeys, nstr: *nstr, lits: lits, obs: oc, obsEvery: *obsEvery},
		distinct: map[uint64]struct{}{}, stateHit: make([]int32, len(g.States))}
	start := time.Now()
	deadline := start.Add(*budget)
	timedOut := false
	expired := func() bool {
		if time.Now().After(deadline) {
			timedOut = true
			return true
		}
		return false
	}

	// phase 1: every edge (operation instance) of every state at least once
	coverDone := 0
	if *cover {
		type job struct {
			s   *model.State
			gis []int
		}
		var jobs []job
		for _, s := range g.States {
			if s.Depth < 0 {
				continue
			}
			var still []int
			for gi, grp := range s.Groups {
				moves := false
				for _, ei := range grp {
					if s.Edges[ei].To >= 0 {
						moves = true
					}
				}
				if moves {
					jobs = append(jobs, job{s, []int{gi}})
				} else {
					still = append(still, gi)
				}
			}
			// all operations that leave the heap unchanged (panics, no-ops) are chained in one run
			for len(still) > 0 {
				n := len(still)
				if n > 64 {
					n = 64
				}
				jobs = append(jobs, job{s, still[:n]})
				still = still[n:]
			}
		}
		var done int64
		parallel(len(jobs), *workers, func(i int) {
			if rn.nviol() > 0 || expired() {
				return
			}
			j := jobs[i]
			prefix := rn.pathTo(j.s)
			ch := func(st *model.State, k int) int {
				if k < len(prefix) {
					return groupOf(st, prefix[k])
				}
				if k-len(prefix) < len(j.gis) && st.ID == j.s.ID {
					return j.gis[k-len(prefix)]
				}
				return -1
			}
			// the same operation once more after a detour that changes only hidden state: Add then Pop on the
			// receiver (and on a list argument) leaves the abstract heap as it was, but the spine now has spare capacity
			if len(j.gis) == 1 {
				op := j.s.Edges[j.s.Groups[j.gis[0]][0]].O
				for _, target := range []int{op.R, op.J} {
					if target <= 0 || target > len(j.s.Heap) || (j.s.Heap[target-1].T != "L" && j.s.Heap[target-1].T != "O") {
						continue
					}
					if target == op.J && op.J == op.R {
						continue
					}
					for di, detour := range rn.detours(j.s, target) {
						// Add;Pop (spare capacity) for every operation; the other round trips on a quarter of them
						always := (detour[0].Op == "Add" && detour[1].Op == "Pop") || detour[0].Op == "Sort" || detour[0].Op == "Reverse" || detour[1].Op == "Sort"
						if !always && (i+di)%4 != 0 {
							continue
						}
						full := append(append([]model.Op{}, prefix...), detour...)
						chd := func(st *model.State, k int) int {
							if k < len(full) {
								return groupOf(st, full[k])
							}
							if k == len(full) && st.ID == j.s.ID {
								return j.gis[0]
							}
							return -1
						}
						if _, _, v := rn.runPath(chd, *seed+int64(i%7), "cover-detour", false); v != nil {
							rn.report(v)
							return
						}
						atomic.AddInt64(&rn.ndetours, 1)
					}
				}
			}
			_, tr, v := rn.runPath(ch, *seed+int64(i%7), "cover", i%1000 == 0)
			if v != nil {
				rn.report(v)
			}
			if len(tr) > 0 {
				rn.mu.Lock()
				if len(rn.samples) < 3 {
					rn.samples = append(rn.samples, tr)
				}
				rn.mu.Unlock()
			}
			atomic.AddInt64(&done, int64(len(j.gis)))
		})
		coverDone = int(done)
	}

	// phase 2: all paths up to the given depth (bounded by maxpaths)
	var exhaustivePaths int64
	exhaustiveComplete := true
	if *depth > 0 && rn.nviol() == 0 {
		// split on the first two levels
		type pre struct{ p []int }
		var prefixes []pre
		init := g.States[g.Init]
		for g0 := range init.Groups {
			prefixes = append(prefixes, pre{[]int{g0}})
		}
		var count int64
		var dfs func(prefix []int, seedBase int64)
		dfs = func(prefix []int, seedBase int64) {
			if rn.nviol() > 0 {
				return
			}
			if atomic.LoadInt64(&count) >= *maxPaths || expired() {
				exhaustiveComplete = false
				return
			}
			ch := func(st *model.State, k int) int {
				if k < len(prefix) {
					return prefix[k]
				}
				return -1
			}
			st, _, v := rn.runPath(ch, seedBase, "paths", false)
			atomic.AddInt64(&count, 1)
			if v != nil {
				rn.report(v)
				return
			}
			if len(prefix) >= *depth {
				return
			}
			for gi := range st.Groups {
				dfs(append(append([]int(nil), prefix...), gi), seedBase)
			}
		}
		parallel(len(prefixes), *workers, func(i int) { dfs(prefixes[i].p, *seed+int64(i%5)) })
		exhaustivePaths = count
	}

	// phase 3: random walks
	walksDone := int64(0)
	if *walks > 0 && rn.nviol() == 0 {
		parallel(*walks, *workers, func(i int) {
			if rn.nviol() > 0 || expired() {
				return
			}
			rng := rand.New(rand.NewSource(*seed*1000003 + int64(i)))
			ch := func(st *model.State, k int) int {
				if k >= *walkLen || len(st.Groups) == 0 {
					return -1
				}
				return rng.Intn(len(st.Groups))
			}
			_, tr, v := rn.runPath(ch, *seed+int64(i), "walk", i < 2)
			if v != nil {
				rn.report(v)
			}
			if tr != nil {
				rn.mu.Lock()
				if len(rn.samples) < 5 {
					rn.samples = append(rn.samples, tr)
				}
				rn.mu.Unlock()
			}
			atomic.AddInt64(&walksDone, 1)
		})
	}

	statesVisited := 0
	for _, h := range rn.stateHit {
		if h > 0 {
			statesVisited++
		}
	}
	groups := 0
	for _, s := range g.States {
		groups += len(s.Groups)
	}
	sort.Slice(rn.viol, func(i, j int) bool { return len(rn.viol[i].Steps) < len(rn.viol[j].Steps) })
	for i, v := range rn.viol {
		if *replayDir != "" {
			os.MkdirAll(*replayDir, 0o755)
			p := filepath.Join(*replayDir, fmt.Sprintf("%s-%x-%d.json", *prop, fnv(v.Sig)&0xffffff, i))
			v.Replay = p
			b, _ := json.MarshalIndent(v, "", " ")
			os.WriteFile(p, b, 0o644)
		}
	}
	summary := map[string]any{
		"graph_states":           len(g.States),
		"graph_edges":            g.NEdges,
		"graph_op_instances":     groups,
		"states_visited":         statesVisited,
		"cover_runs":             coverDone,
		"paths_exhaustive":       exhaustivePaths,
		"paths_depth":            *depth,
		"paths_complete":         exhaustiveComplete,
		"walks":                  walksDone,
		"walk_len":               *walkLen,
		"steps":                  rn.steps,
		"behaviours_cut":         rn.skipped,
		"spare_capacity_detours": rn.ndetours,
		"api_calls":              rn.calls,
		"behaviours":             rn.paths,
		"distinct_state_ops":     len(rn.distinct),
		"samples":                rn.samples,
		"violations":             rn.viol,
		"timed_out":              timedOut,
		"conc":                   *concMode,
		"derived":                *derived,
		"wall_s":                 time.Since(start).Seconds(),
	}
	b, _ := json.MarshalIndent(summary, "", " ")
	if *out != "" {
		os.WriteFile(*out, b, 0o644)
	} else {
		os.Stdout.Write(b)
	}
	if len(rn.viol) > 0 {
		for _, v := range rn.viol[:1] {
			fmt.Printf("MISMATCH property=%s replay=%s :: %s\n", *prop, v.Replay, v.Message)
		}
		return 1
	}
	if rn.steps == 0 {
		fmt.Fprintln(os.Stderr, "replay: nothing executed")
		return 2
	}
	return 0
}

// cmdReplayFile re-executes one recorded violation (replay file) on the current tree.
func cmdReplayFile(args []string) int {
	fs := flag.NewFlagSet("replayfile", flag.ExitOnError)
	file := fs.String("file", "", "replay file")
	fs.Parse(args)
	b, err := os.ReadFile(*file)
	if err != nil {
		fmt.Fprintln(os.Stderr, err)
		return 2
	}
	var v violation
	if err := json.Unmarshal(b, &v); err != nil {
		fmt.Fprintln(os.Stderr, err)
		return 2
	}
	var t *conc.Table
	if v.Conc == "tf" {
		t = conc.NewTF(v.Seed, v.NStr)
	} else {
		t = conc.New(v.Conc, v.Seed, v.NStr)
	}
	real := heapx.New(t, v.Lits, v.NKeys, v.Derived)
	for k, st := range v.Steps {
		panicked, ret, pmsg := real.Exec(st.Op)
		ok := false
		var msgs []string
		for _, a := range st.Allowed {
			f, rv := real.Snapshot()
			var m *heapx.Mismatch
			if a.P != panicked {
				m = &heapx.Mismatch{Msg: fmt.Sprintf("panicked=%v (%v), model panics=%v", panicked, pmsg, a.P)}
			}
			if m == nil && !a.P {
				m = real.CheckRet(a.Ret, ret, true)
			}
			if m == nil {
				m = real.Compare(a.Heap)
			}
			if m == nil {
				ok = true
				break
			}
			msgs = append(msgs, m.Msg)
			real.Restore(f, rv)
		}
		fmt.Printf("step %d %s -> %v\n", k+1, st.Op.String(), ok)
		if !ok {
			fmt.Printf("VIOLATION property=%s replay=%s\n  %s\n", v.Property, *file, strings.Join(msgs, " | "))
			return 1
		}
	}
	fmt.Println("replay: every recorded step matches an allowed successor on this tree (original message: " + v.Message + ")")
	return 0
}
