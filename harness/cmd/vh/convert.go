package main

import (
	"bufio"
	"encoding/json"
	"flag"
	"fmt"
	"math"
	"math/big"
	"math/rand"
	"os"
	"reflect"
	"strconv"
	"strings"
	"sync/atomic"
	"time"
	"verif/harness/jsonx"

	at "github.com/DanielSvub/anytype"
)

// convert: (entry point, native class, context) triples printed by TLC from spec/Convert.tla (C12).

type convRec struct {
	Ep       string   `json:"ep"`
	Cls      string   `json:"cls"`
	Ctx      string   `json:"ctx"`
	Kind     string   `json:"kind"`
	Getters  []string `json:"getters"`
	Fresh    bool     `json:"fresh"`
	Identity bool     `json:"identity"`
}

type dObj struct{ at.Object }
type dList struct{ at.List }

func newDObj() at.Object {
	d := &dObj{Object: at.NewObject("x", 1)}
	d.Init(d)
	return d
}
func newDList() at.List {
	d := &dList{List: at.NewList("x", 1)}
	d.Init(d)
	return d
}

type level int8
type sname string
type pair struct{ A, B int }

// member: one concrete Go value of a class with the expected normal form.
type member struct {
	v       any
	wantI   *big.Int // ints
	wantF   float64  // floats
	wantS   string
	wantB   bool
	content string // containers: expected String() of the normalised container (lists) or key count
	mutate  func() // containers built from Go values: modify the source afterwards
	same    any    // Object/List: the identical value must be retrievable
}

func intMember(v any) member {
	rv := reflect.ValueOf(v)
	b := new(big.Int)
	switch rv.Kind() {
	case reflect.Int, reflect.Int8, reflect.Int16, reflect.Int32, reflect.Int64:
		b.SetInt64(rv.Int())
	default:
		b.SetUint64(rv.Uint())
	}
	return member{v: v, wantI: b}
}

func members(cls string, rng *rand.Rand, full bool) []member {
	var out []member
	n32 := 2000
	if full {
		n32 = 100000
	}
	switch cls {
	case "int":
		for _, x := range []int{0, 1, -1, math.MaxInt, math.MinInt, 1 << 53, -(1 << 53) - 1} {
			out = append(out, intMember(x))
		}
		for i := 0; i < n32; i++ {
			out = append(out, intMember(int(rng.Uint64())))
		}
	case "int8":
		for x := math.MinInt8; x <= math.MaxInt8; x++ {
			out = append(out, intMember(int8(x)))
		}
	case "int16":
		step := 1
		if !full {
			step = 7
		}
		for x := math.MinInt16; x <= math.MaxInt16; x += step {
			out = append(out, intMember(int16(x)))
		}
		out = append(out, intMember(int16(math.MaxInt16)), intMember(int16(math.MinInt16)), intMember(int16(-1)))
	case "int32":
		for _, x := range []int32{0, 1, -1, math.MaxInt32, math.MinInt32, 1 << 30} {
			out = append(out, intMember(x))
		}
		for i := 0; i < n32; i++ {
			out = append(out, intMember(int32(rng.Uint32())))
		}
	case "int64":
		for _, x := range []int64{0, 1, -1, math.MaxInt64, math.MinInt64, 1 << 53, 1 << 32, -(1 << 31) - 1} {
			out = append(out, intMember(x))
		}
		for i := 0; i < n32; i++ {
			out = append(out, intMember(int64(rng.Uint64())))
		}
	case "uint":
		for _, x := range []uint{0, 1, math.MaxInt, 1 << 32, math.MaxInt - 1, 1 << 62} {
			out = append(out, intMember(x))
		}
		for i := 0; i < n32; i++ {
			out = append(out, intMember(uint(rng.Int63())))
		}
	case "uint8":
		for x := 0; x <= math.MaxUint8; x++ {
			out = append(out, intMember(uint8(x)))
		}
	case "uint16":
		step := 1
		if !full {
			step = 7
		}
		for x := 0; x <= math.MaxUint16; x += step {
			out = append(out, intMember(uint16(x)))
		}
		out = append(out, intMember(uint16(math.MaxUint16)), intMember(uint16(1<<15)))
	case "uint32":
		for _, x := range []uint32{0, 1, math.MaxUint32, math.MaxInt32, math.MaxInt32 + 1, 1 << 31} {
			out = append(out, intMember(x))
		}
		for i := 0; i < n32; i++ {
			out = append(out, intMember(rng.Uint32()))
		}
	case "uint64":
		for _, x := range []uint64{0, 1, math.MaxInt64, 1 << 32, 1 << 62, math.MaxInt64 - 1} {
			out = append(out, intMember(x))
		}
		for i := 0; i < n32; i++ {
			out = append(out, intMember(uint64(rng.Int63())))
		}
	case "float32":
		for _, x := range []float32{0, float32(math.Copysign(0, -1)), 1, -1, 0.1, 3.4028235e38, -3.4028235e38, 1e-45, -1e-45, 1.1754942e-38, 1.17549435e-38, 16777216, 16777217, 0.5, 1.0 / 3} {
			out = append(out, member{v: x, wantF: float64(x)})
		}
		for i := 0; i < n32; i++ {
			x := math.Float32frombits(rng.Uint32())
			if x != x || math.IsInf(float64(x), 0) {
				continue
			}
			out = append(out, member{v: x, wantF: float64(x)})
		}
	case "float64":
		for _, x := range []float64{0, 1.5, -2, math.MaxFloat64, 5e-324, 1e21, 3} {
			out = append(out, member{v: x, wantF: x})
		}
	case "string":
		for _, x := range []string{"", "a", "ž\x00", "[1]"} {
			out = append(out, member{v: x, wantS: x})
		}
	case "bool":
		out = append(out, member{v: true, wantB: true}, member{v: false, wantB: false})
	case "nil":
		out = append(out, member{v: nil})
	case "Object":
		o := at.NewObject("x", 1)
		out = append(out, member{v: o, same: o})
	case "List":
		l := at.NewList("x", 1)
		out = append(out, member{v: l, same: l})
	case "derived Object":
		o := newDObj()
		out = append(out, member{v: o, same: o})
	case "derived List":
		l := newDList()
		out = append(out, member{v: l, same: l})
	case "map[string]any":
		m := map[string]any{"a": 1, "b": []any{int8(2), map[string]any{"c": uint16(3)}}}
		out = append(out, member{v: m, content: `{"a":1,"b":[2,{"c":3}]}`, mutate: func() { m["a"] = 99; m["z"] = 1 }})
		out = append(out, member{v: map[string]any{}, content: `{}`})
		out = append(out, member{v: map[string]any{"p": []any{}, "q": map[string]any{}, "r": []any{}, "s": map[string]any{}, "t": []int{}, "u": map[string]string{}}, content: `{"p":[],"q":{},"r":[],"s":{},"t":[],"u":{}}`})
	case "map[string]Object":
		o := at.NewObject("x", 1)
		m := map[string]at.Object{"o": o}
		out = append(out, member{v: m, content: `{"o":{"x":1}}`, mutate: func() { delete(m, "o") }})
	case "map[string]List":
		m := map[string]at.List{"l": at.NewList(1)}
		out = append(out, member{v: m, content: `{"l":[1]}`, mutate: func() { m["q"] = at.NewList() }})
	case "map[string]string":
		m := map[string]string{"s": "t"}
		out = append(out, member{v: m, content: `{"s":"t"}`, mutate: func() { m["s"] = "u" }})
		out = append(out, member{v: map[string]string{}, content: `{}`})
	case "map[string]bool":
		m := map[string]bool{"b": true}
		out = append(out, member{v: m, content: `{"b":true}`, mutate: func() { m["b"] = false }})
		out = append(out, member{v: map[string]bool{}, content: `{}`})
	case "map[string]int":
		m := map[string]int{"i": 7}
		out = append(out, member{v: m, content: `{"i":7}`, mutate: func() { m["i"] = 8 }})
		out = append(out, member{v: map[string]int{}, content: `{}`})
	case "map[string]float64":
		m := map[string]float64{"f": 1.5}
		out = append(out, member{v: m, content: `{"f":1.5}`, mutate: func() { m["f"] = 2.5 }})
		out = append(out, member{v: map[string]float64{}, content: `{}`})
	case "[]any":
		s := []any{1, "a", nil, []any{uint8(2)}, map[string]any{"k": float32(0.5)}}
		out = append(out, member{v: s, content: `[1,"a",null,[2],{"k":0.5}]`, mutate: func() { s[0] = 99; s[3].([]any)[0] = 98 }})
		out = append(out, member{v: []any{}, content: `[]`})
		out = append(out, member{v: []any{[]any{}, map[string]any{}, []any{}, map[string]any{}, []string{}, map[string]float64{}, []any{[]any{}}}, content: `[[],{},[],{},[],{},[[]]]`})
		{
			big := make([]any, 4099)
			var b strings.Builder
			b.WriteByte('[')
			for i := range big {
				if i > 0 {
					b.WriteByte(',')
				}
				switch {
				case i >= 4096 && i%2 == 0:
					big[i] = []any{int16(i)}
					b.WriteString("[" + strconv.Itoa(i) + "]")
				case i >= 4096:
					big[i] = map[string]any{"k": uint32(i)}
					b.WriteString(`{"k":` + strconv.Itoa(i) + "}")
				default:
					big[i] = int8(i % 100)
					b.WriteString(strconv.Itoa(i % 100))
				}
			}
			b.WriteByte(']')
			out = append(out, member{v: big, content: b.String()})
		}
	case "[]Object":
		s := []at.Object{at.NewObject("x", 1), at.NewObject()}
		out = append(out, member{v: s, content: `[{"x":1},{}]`, mutate: func() { s[0] = at.NewObject("y", 2) }})
	case "[]List":
		s := []at.List{at.NewList(1), at.NewList()}
		out = append(out, member{v: s, content: `[[1],[]]`, mutate: func() { s[1] = at.NewList(5) }})
	case "[]string":
		s := []string{"a", ""}
		out = append(out, member{v: s, content: `["a",""]`, mutate: func() { s[0] = "z" }})
		out = append(out, member{v: []string{}, content: `[]`})
		{
			big := make([]string, 4099)
			var b strings.Builder
			b.WriteByte('[')
			for i := range big {
				big[i] = "s" + strconv.Itoa(i)
				if i > 0 {
					b.WriteByte(',')
				}
				b.WriteString(strconv.Quote(big[i]))
			}
			b.WriteByte(']')
			out = append(out, member{v: big, content: b.String()})
		}
	case "[]bool":
		s := []bool{true, false}
		out = append(out, member{v: s, content: `[true,false]`, mutate: func() { s[0] = false }})
		out = append(out, member{v: []bool{}, content: `[]`})
		{
			big := make([]bool, 4097)
			var b strings.Builder
			b.WriteByte('[')
			for i := range big {
				big[i] = i%3 == 0
				if i > 0 {
					b.WriteByte(',')
				}
				b.WriteString(strconv.FormatBool(big[i]))
			}
			b.WriteByte(']')
			out = append(out, member{v: big, content: b.String()})
		}
	case "[]int":
		s := []int{3, -1}
		out = append(out, member{v: s, content: `[3,-1]`, mutate: func() { s[0] = 0 }})
		out = append(out, member{v: []int{}, content: `[]`})
		{
			// long slices (block-wise conversion must not drop a remainder): 4099 and 8197 elements
			for _, n := range []int{4099, 8197} {
				big := make([]int, n)
				var b strings.Builder
				b.WriteByte('[')
				for i := range big {
					big[i] = i - 7
					if i > 0 {
						b.WriteByte(',')
					}
					b.WriteString(strconv.Itoa(i - 7))
				}
				b.WriteByte(']')
				out = append(out, member{v: big, content: b.String()})
			}
		}
	case "[]float64":
		s := []float64{1.5, -2.25}
		out = append(out, member{v: s, content: `[1.5,-2.25]`, mutate: func() { s[0] = 0 }})
		out = append(out, member{v: []float64{}, content: `[]`})
		{
			big := make([]float64, 4101)
			var b strings.Builder
			b.WriteByte('[')
			for i := range big {
				big[i] = float64(i) + 0.5
				if i > 0 {
					b.WriteByte(',')
				}
				b.WriteString(strconv.FormatFloat(big[i], 'f', -1, 64))
			}
			b.WriteByte(']')
			out = append(out, member{v: big, content: b.String()})
		}
	case "[]Object{nil}":
		out = append(out, member{v: []at.Object{nil, at.NewObject()}, content: `[null,{}]`})
	case "[]List{nil}":
		out = append(out, member{v: []at.List{at.NewList(), nil}, content: `[[],null]`})
	case "[]any{nil}":
		out = append(out, member{v: []any{nil, at.Object(nil), at.List(nil)}, content: `[null,null,null]`})
	case "map[string]Object{nil}":
		out = append(out, member{v: map[string]at.Object{"n": nil}, content: `{"n":null}`})
	case "map[string]List{nil}":
		out = append(out, member{v: map[string]at.List{"n": nil}, content: `{"n":null}`})
	// unsupported
	case "struct":
		out = append(out, member{v: pair{1, 2}}, member{v: time.Unix(0, 0)}, member{v: struct{}{}})
	case "pointer":
		x := 5
		s := "s"
		out = append(out, member{v: &x}, member{v: &s}, member{v: &pair{}})
	case "chan":
		out = append(out, member{v: make(chan int)})
	case "func":
		out = append(out, member{v: func() {}})
	case "json.Number":
		out = append(out, member{v: json.Number("1")})
	case "[]byte":
		out = append(out, member{v: []byte("x")})
	case "uintptr":
		out = append(out, member{v: uintptr(1)})
	case "complex128":
		out = append(out, member{v: complex(1, 0)}, member{v: complex64(1)})
	case "[]int32":
		out = append(out, member{v: []int32{1}}, member{v: []uint{1}}, member{v: []float32{1}})
	case "[]int8":
		out = append(out, member{v: []int8{1}}, member{v: []int64{1}})
	case "map[int]any":
		out = append(out, member{v: map[int]any{1: 1}}, member{v: map[any]any{"a": 1}})
	case "map[string]int64":
		out = append(out, member{v: map[string]int64{"a": 1}}, member{v: map[string]float32{"a": 1}}, member{v: map[string]uint8{"a": 1}})
	case "time.Duration":
		out = append(out, member{v: time.Second}, member{v: time.Month(3)}, member{v: reflect.Int})
	case "named int8":
		out = append(out, member{v: level(3)})
	case "named string":
		out = append(out, member{v: sname("x")})
	case "anytype.Type":
		out = append(out, member{v: at.TypeInt})
	case "typed nil pointer":
		out = append(out, member{v: (*int)(nil)}, member{v: (*pair)(nil)})
	case "[][]any":
		out = append(out, member{v: [][]any{{1}}}, member{v: []map[string]any{{"a": 1}}})
	case "array":
		out = append(out, member{v: [2]int{1, 2}}, member{v: [1]any{1}})
	default:
		panic("convert: unknown class " + cls)
	}
	return out
}

func wrapCtx(ctx string, v any) any {
	switch ctx {
	case "direct":
		return v
	case "in []any":
		return []any{v}
	case "in map[string]any":
		return map[string]any{"k": v}
	case "depth 2":
		return []any{map[string]any{"k": v}}
	}
	panic("convert: unknown context " + ctx)
}

// holder: where the normal form of v sits after the insertion.
type holder struct {
	l   at.List
	o   at.Object
	idx int
	key string
	val any // when there is no holder slot (NewListFrom / NewObjectFrom results): the value itself
}

func (h holder) typeOf() at.Type {
	if h.l != nil {
		return h.l.TypeOf(h.idx)
	}
	if h.o != nil {
		return h.o.TypeOf(h.key)
	}
	switch h.val.(type) {
	case at.List:
		return at.TypeList
	case at.Object:
		return at.TypeObject
	}
	return at.TypeUndefined
}

func (h holder) get() any {
	if h.l != nil {
		return h.l.Get(h.idx)
	}
	if h.o != nil {
		return h.o.Get(h.key)
	}
	return h.val
}

func (h holder) typed(k string) (v any, p any) {
	if h.l != nil {
		return typedGetLC(h.l, h.idx, k)
	}
	if h.o != nil {
		return typedGetOC(h.o, h.key, k)
	}
	return nil, "no slot"
}

func typedGetLC(l at.List, i int, k string) (v any, p any) {
	defer func() { p = recover() }()
	switch k {
	case "O":
		v = l.GetObject(i)
	case "L":
		v = l.GetList(i)
	case "str":
		v = l.GetString(i)
	case "bool":
		v = l.GetBool(i)
	case "int":
		v = l.GetInt(i)
	case "float":
		v = l.GetFloat(i)
	}
	return
}

func typedGetOC(o at.Object, key string, k string) (v any, p any) {
	defer func() { p = recover() }()
	switch k {
	case "O":
		v = o.GetObject(key)
	case "L":
		v = o.GetList(key)
	case "str":
		v = o.GetString(key)
	case "bool":
		v = o.GetBool(key)
	case "int":
		v = o.GetInt(key)
	case "float":
		v = o.GetFloat(key)
	}
	return
}

// insert performs the entry point with argument w; returns the holder of w's normal form.
func insert(ep string, w any, early *any) (h holder, container any) {
	isSlice := func(x any) bool {
		switch x.(type) {
		case []any, []at.Object, []at.List, []string, []bool, []int, []float64:
			return true
		}
		return false
	}
	isMap := func(x any) bool {
		switch x.(type) {
		case map[string]any, map[string]at.Object, map[string]at.List, map[string]string, map[string]bool, map[string]int, map[string]float64:
			return true
		}
		return false
	}
	switch ep {
	case "NewList":
		l := at.NewList("pad", w)
		return holder{l: l, idx: 1}, l
	case "NewListOf":
		l := at.NewListOf(w, 3)
		return holder{l: l, idx: 2}, l
	case "NewListFrom":
		if isSlice(w) {
			l := at.NewListFrom(w)
			return holder{val: l}, l
		}
		l := at.NewListFrom([]any{"pad", w})
		return holder{l: l, idx: 1}, l
	case "Add":
		l := at.NewList("pad")
		*early = l
		l.Add(w)
		return holder{l: l, idx: 1}, l
	case "Insert":
		l := at.NewList("pad", "pad2")
		*early = l
		l.Insert(2, "pad3")
		l.Insert(3, w) // at the end: Insert delegates to Add
		l.Delete(3)
		l.Insert(1, w)
		return holder{l: l, idx: 1}, l
	case "Replace":
		// the slots written over hold containers that are also stored elsewhere: overwriting a slot must not touch them
		prevL, prevO := at.NewList(1, 2), at.NewObject("p", 1)
		keeper := at.NewList(prevL, prevO)
		l := at.NewList("pad", prevL, prevO, "old")
		*early = l
		l.Replace(3, w)
		l.Replace(2, w)
		l.Replace(1, w)
		if prevL.String() != "[1,2]" || prevO.String() != `{"p":1}` || keeper.Get(0) != any(prevL) || keeper.Get(1) != any(prevO) {
			panic(fmt.Sprintf("verif: Replace over a slot that held a container changed that container (now %s and %s)", prevL.String(), prevO.String()))
		}
		if l.Get(1) == any(prevL) || l.Get(2) == any(prevO) {
			panic("verif: Replace kept the container that was in the slot instead of storing the new value")
		}
		return holder{l: l, idx: 1}, l
	case "SetTF(list)":
		l := at.NewList("pad")
		*early = l
		l.SetTF("#2#1", w)
		return holder{l: l.GetList(2), idx: 1}, l
	case "NewObject":
		o := at.NewObject("pad", 0, "v", w)
		return holder{o: o, key: "v"}, o
	case "NewObjectFrom":
		if isMap(w) {
			o := at.NewObjectFrom(w)
			return holder{val: o}, o
		}
		o := at.NewObjectFrom(map[string]any{"pad": 0, "v": w})
		return holder{o: o, key: "v"}, o
	case "Set":
		prevL, prevO := at.NewList(1, 2), at.NewObject("p", 1)
		keeper := at.NewList(prevL, prevO)
		o := at.NewObject("v", prevO, "u", prevL, "t", "old")
		*early = o
		o.Set("t", w, "u", w)
		o.Set("v", w)
		if prevL.String() != "[1,2]" || prevO.String() != `{"p":1}` || keeper.Get(0) != any(prevL) || keeper.Get(1) != any(prevO) {
			panic(fmt.Sprintf("verif: Set over a field that held a container changed that container (now %s and %s)", prevL.String(), prevO.String()))
		}
		if o.Get("v") == any(prevO) || o.Get("u") == any(prevL) {
			panic("verif: Set kept the container that was in the field instead of storing the new value")
		}
		return holder{o: o, key: "v"}, o
	case "SetTF(object)":
		o := at.NewObject()
		*early = o
		o.SetTF(".a.v", w)
		return holder{o: o.GetObject("a"), key: "v"}, o
	case "list.Map":
		l := at.NewList(1, 2).Map(func(i int, _ any) any {
			if i == 1 {
				return w
			}
			return "pad"
		})
		return holder{l: l, idx: 1}, l
	case "list.MapInts":
		l := at.NewList("s", 1).MapInts(func(int) any { return w })
		return holder{l: l, idx: 0}, l
	case "list.MapAsync":
		l := at.NewList(1, 2).MapAsync(func(i int, _ any) any {
			if i == 1 {
				return w
			}
			return "pad"
		})
		return holder{l: l, idx: 1}, l
	case "object.Map":
		o := at.NewObject("v", 1).Map(func(string, any) any { return w })
		return holder{o: o, key: "v"}, o
	case "object.MapStrings":
		o := at.NewObject("v", "s", "n", 1).MapStrings(func(string) any { return w })
		return holder{o: o, key: "v"}, o
	case "object.MapAsync":
		o := at.NewObject("v", 1).MapAsync(func(string, any) any { return w })
		return holder{o: o, key: "v"}, o
	}
	panic("convert: unknown entry point " + ep)
}

// descend from the holder of the wrapped value to the holder of v itself.
func descend(h holder, ctx string) (holder, error) {
	switch ctx {
	case "direct":
		return h, nil
	case "in []any":
		l, ok := h.get().(at.List)
		if !ok {
			return h, fmt.Errorf("a []any was stored as %T, want a List", h.get())
		}
		return holder{l: l, idx: 0}, nil
	case "in map[string]any":
		o, ok := h.get().(at.Object)
		if !ok {
			return h, fmt.Errorf("a map[string]any was stored as %T, want an Object", h.get())
		}
		return holder{o: o, key: "k"}, nil
	case "depth 2":
		l, ok := h.get().(at.List)
		if !ok {
			return h, fmt.Errorf("a []any was stored as %T, want a List", h.get())
		}
		o, ok := l.Get(0).(at.Object)
		if !ok {
			return h, fmt.Errorf("a nested map[string]any was stored as %T, want an Object", l.Get(0))
		}
		return holder{o: o, key: "k"}, nil
	}
	return h, fmt.Errorf("unknown context")
}

var kindTypeC = map[string]at.Type{"nil": at.TypeNil, "O": at.TypeObject, "L": at.TypeList, "str": at.TypeString, "bool": at.TypeBool, "int": at.TypeInt, "float": at.TypeFloat}

func wellFormed(c any) (err error) {
	defer func() {
		if e := recover(); e != nil {
			err = fmt.Errorf("panic while reading it: %v", e)
		}
	}()
	switch x := c.(type) {
	case at.List:
		for i := 0; i < x.Count(); i++ {
			if x.TypeOf(i) == at.TypeUndefined {
				return fmt.Errorf("TypeOf(%d) is TypeUndefined inside a list of %d", i, x.Count())
			}
			if sub, ok := x.Get(i).(at.List); ok {
				if err := wellFormed(sub); err != nil {
					return err
				}
			}
		}
		_ = x.String()
	case at.Object:
		keys := x.Keys()
		for i := 0; i < keys.Count(); i++ {
			if x.TypeOf(keys.GetString(i)) == at.TypeUndefined {
				return fmt.Errorf("TypeOf(%q) is TypeUndefined for an existing key", keys.GetString(i))
			}
		}
		_ = x.String()
	}
	return nil
}

// pureNative: a native Go tree without anytype containers inside (those are stored by identity, not converted)
func pureNative(v any) bool {
	switch x := v.(type) {
	case []any:
		for _, e := range x {
			if !pureNative(e) {
				return false
			}
		}
		return true
	case map[string]any:
		for _, e := range x {
			if !pureNative(e) {
				return false
			}
		}
		return true
	case at.Object, at.List, []at.Object, []at.List, map[string]at.Object, map[string]at.List:
		return false
	}
	return true
}

func checkConvert(r *convRec, m member) error {
	w := wrapCtx(r.Ctx, m.v)
	var h holder
	var container, early any
	panicked := func() (p any) {
		defer func() { p = recover() }()
		h, container = insert(r.Ep, w, &early)
		return nil
	}()
	if r.Kind == "reject" {
		if panicked != nil && early != nil {
			// the container the rejected call was made on must still be a well-formed container:
			// every position reports one of the seven kinds and can be read and serialised
			if err := wellFormed(early); err != nil {
				return fmt.Errorf("after rejecting %T the receiver is no longer well formed: %v", m.v, err)
			}
		}
		if panicked == nil {
			got := "?"
			if hh, err := descend(h, r.Ctx); err == nil {
				got = fmt.Sprintf("TypeOf=%d Get=%#v", hh.typeOf(), hh.get())
			}
			return fmt.Errorf("value %#v of unsupported type %T was accepted and stored (%s)", m.v, m.v, got)
		}
		return nil
	}
	if panicked != nil {
		return fmt.Errorf("supported value %#v (%T) was rejected: %v", m.v, m.v, panicked)
	}
	hh, err := descend(h, r.Ctx)
	if err != nil {
		return err
	}
	if t := hh.typeOf(); t != kindTypeC[r.Kind] {
		return fmt.Errorf("TypeOf = %d, want %d (%s) for %#v (%T)", t, kindTypeC[r.Kind], r.Kind, m.v, m.v)
	}
	got := hh.get()
	switch r.Kind {
	case "int":
		g, ok := got.(int)
		if !ok {
			return fmt.Errorf("Get returns %T for %T, want int", got, m.v)
		}
		if big.NewInt(int64(g)).Cmp(m.wantI) != 0 {
			return fmt.Errorf("%T(%v) was stored as int %d", m.v, m.v, g)
		}
	case "float":
		g, ok := got.(float64)
		if !ok {
			return fmt.Errorf("Get returns %T for %T, want float64", got, m.v)
		}
		if math.Float64bits(g) != math.Float64bits(m.wantF) {
			return fmt.Errorf("%T(%v) was stored as float64 %v", m.v, m.v, g)
		}
		if f32, is32 := m.v.(float32); is32 && (float32(g) != f32 || float64(float32(g)) != g) {
			return fmt.Errorf("float32(%v) was stored as %v which is not the exactly equal float64", f32, g)
		}
	case "str":
		if g, ok := got.(string); !ok || g != m.wantS {
			return fmt.Errorf("Get = %#v, want string %q", got, m.wantS)
		}
	case "bool":
		if g, ok := got.(bool); !ok || g != m.wantB {
			return fmt.Errorf("Get = %#v, want bool %v", got, m.wantB)
		}
	case "nil":
		if got != nil {
			return fmt.Errorf("Get = %#v, want nil", got)
		}
	case "O", "L":
		var str string
		switch c := got.(type) {
		case at.Object:
			if r.Kind != "O" {
				return fmt.Errorf("Get returns an Object, want a List")
			}
			str = c.String()
			if m.content != "" {
				exp, _ := at.ParseObject(m.content)
				if exp == nil || !exp.Equals(c) {
					return fmt.Errorf("%T converted to %s, want %s", m.v, str, m.content)
				}
			}
		case at.List:
			if r.Kind != "L" {
				return fmt.Errorf("Get returns a List, want an Object")
			}
			str = c.String()
			if m.content != "" && str != m.content {
				return fmt.Errorf("%T converted to %s, want %s", m.v, str, m.content)
			}
		default:
			return fmt.Errorf("Get returns %T, want a container", got)
		}
		if r.Identity && got != m.same {
			return fmt.Errorf("a stored %T is not handed back as the identical value", m.v)
		}
		if r.Fresh && m.mutate != nil {
			m.mutate()
			var after string
			switch c := got.(type) {
			case at.Object:
				exp, _ := at.ParseObject(m.content)
				if !exp.Equals(c) {
					after = c.String()
				}
			case at.List:
				if c.String() != m.content {
					after = c.String()
				}
			}
			if after != "" {
				return fmt.Errorf("modifying the source %T after insertion changed the container to %s", m.v, after)
			}
		}
		if r.Fresh {
			// "fresh": a second conversion of the same native value yields other containers at every depth, and what is
			// done to the first result never shows in the second
			var h2 holder
			if p := func() (p any) {
				defer func() { p = recover() }()
				var early2 any
				h2, _ = insert(r.Ep, wrapCtx(r.Ctx, m.v), &early2)
				return nil
			}(); p != nil {
				return fmt.Errorf("the second insertion of the same %T was rejected: %v", m.v, p)
			}
			hh2, err := descend(h2, r.Ctx)
			if err != nil {
				return err
			}
			got2 := hh2.get()
			seen := map[any]string{}
			dup := ""
			walkContainers(got, func(c any) {
				if _, twice := seen[c]; twice {
					dup = "one container appears twice inside the result of one conversion"
				}
				seen[c] = "first"
			})
			walkContainers(got2, func(c any) {
				if seen[c] == "first" {
					dup = "two conversions of the same value share a container"
				}
			})
			if dup != "" && pureNative(m.v) {
				return fmt.Errorf("%T: %s (a native map/slice must become a fresh container every time, at every depth)", m.v, dup)
			}
			if pureNative(m.v) {
				before, err := jsonx.Project(got2)
				if err != nil {
					return fmt.Errorf("second conversion of %T cannot be read: %v", m.v, err)
				}
				reshape(got, "first")
				after, err := jsonx.Project(got2)
				if err == nil {
					err = jsonx.EqualTree(before, after, "$")
				}
				if err != nil {
					return fmt.Errorf("changing the containers made from one %T changed those made from another conversion of it: %v", m.v, err)
				}
			}
		}
	}
	// exactly the matching typed getter succeeds
	if hh.l != nil || hh.o != nil {
		want := map[string]bool{}
		for _, g := range r.Getters {
			want[g] = true
		}
		for _, k := range []string{"O", "L", "str", "bool", "int", "float"} {
			v, p := hh.typed(k)
			if want[k] {
				if p != nil {
					return fmt.Errorf("typed getter %s panicked (%v) on a stored %s", k, p, r.Kind)
				}
				if rf, ok := v.(float64); ok {
					if math.Float64bits(rf) != math.Float64bits(got.(float64)) {
						return fmt.Errorf("typed getter %s = %v, Get = %v", k, v, got)
					}
				} else if v != got {
					return fmt.Errorf("typed getter %s = %#v, Get = %#v", k, v, got)
				}
			} else if p == nil {
				return fmt.Errorf("typed getter %s succeeded (%#v) on a stored %s", k, v, r.Kind)
			}
		}
	}
	// the whole container is still serialisable and readable
	switch c := container.(type) {
	case at.List:
		_ = c.String()
	case at.Object:
		_ = c.String()
	}
	return nil
}

func cmdConvert(args []string) int {
	fs := flag.NewFlagSet("convert", flag.ExitOnError)
	in := fs.String("in", "", "TLC output with conversion records")
	prop := fs.String("prop", "C12", "property id")
	seed := fs.Int64("seed", 1, "seed")
	full := fs.Bool("full", false, "full width sweeps")
	workers := fs.Int("workers", 16, "goroutines")
	out := fs.String("out", "", "summary file")
	replayDir := fs.String("replaydir", "", "replay dir")
	fs.Parse(args)
	start := time.Now()
	f, err := os.Open(*in)
	if err != nil {
		fmt.Fprintln(os.Stderr, err)
		return 2
	}
	var recs []*convRec
	rd := bufio.NewReaderSize(f, 1<<20)
	for {
		line, err := rd.ReadString('\n')
		if strings.HasPrefix(line, `"{`) {
			var inner string
			if e := json.Unmarshal([]byte(strings.TrimRight(line, "\r\n")), &inner); e == nil {
				var r convRec
				if e := json.Unmarshal([]byte(inner), &r); e == nil {
					recs = append(recs, &r)
				}
			}
		}
		if err != nil {
			break
		}
	}
	f.Close()
	if len(recs) == 0 {
		fmt.Fprintln(os.Stderr, "convert: no records")
		return 2
	}
	st := newDocStats()
	parallel(len(recs), *workers, func(i int) {
		if st.nviol() > 0 {
			return
		}
		r := recs[i]
		rng := rand.New(rand.NewSource(*seed*31 + int64(i)))
		// the widest sweeps only through a few entry points; every entry point sees a thinned sweep
		wide := *full || r.Ep == "Add" || r.Ep == "Set" || r.Ep == "NewListFrom"
		ms := members(r.Cls, rng, wide && (*full || r.Ctx == "direct"))
		if !wide && len(ms) > 300 {
			thin := ms[:0:0]
			for j := 0; j < len(ms); j += len(ms) / 300 {
				thin = append(thin, ms[j])
			}
			ms = append(thin, ms[len(ms)-1])
		}
		st.seen(r.Ep + "|" + r.Cls + "|" + r.Ctx)
		for _, m := range ms {
			atomic.AddInt64(&st.evals, 1)
			var err error
			if g := guard(func() error { err = checkConvert(r, m); return nil }); g != nil {
				err = g
			}
			if err != nil {
				msg := fmt.Sprintf("%s via %s (%s): %v", r.Cls, r.Ep, r.Ctx, err)
				sig := err.Error()
				if len(sig) > 80 {
					sig = sig[:80]
				}
				b, _ := json.Marshal(r)
				st.fail(&docViolation{Property: *prop, Message: msg, Sig: "convert: " + r.Cls + ": " + sig, Check: "convert", Input: string(b), Text: fmt.Sprintf("%#v", m.v), Seed: *seed})
				return
			}
		}
		if i%97 == 0 {
			st.sample(fmt.Sprintf("%s via %s (%s) -> %s, %d members", r.Cls, r.Ep, r.Ctx, r.Kind, len(ms)))
		}
	})
	// state left behind by rejections: thousands of recovered nested rejections, then every supported class once more
	if st.nviol() == 0 {
		l := at.NewList()
		o := at.NewObject()
		deep := any(pair{1, 2})
		for d := 0; d < 40; d++ {
			if d%2 == 0 {
				deep = []any{deep}
			} else {
				deep = map[string]any{"k": deep}
			}
		}
		for i := 0; i < 3000; i++ {
			func() { defer func() { recover() }(); l.Add(deep) }()
			func() { defer func() { recover() }(); o.Set("k", deep) }()
			func() { defer func() { recover() }(); at.NewList([]any{map[string]any{"k": make(chan int)}}) }()
		}
		for i, r := range recs {
			if r.Kind == "reject" || (r.Ep != "Add" && r.Ep != "Set" && r.Ep != "NewList" && r.Ep != "NewObjectFrom") {
				continue
			}
			rng := rand.New(rand.NewSource(*seed + int64(i)))
			ms := members(r.Cls, rng, false)
			if len(ms) > 3 {
				ms = ms[:3]
			}
			for _, m := range ms {
				atomic.AddInt64(&st.evals, 1)
				var err error
				if g := guard(func() error { err = checkConvert(r, m); return nil }); g != nil {
					err = g
				}
				if err != nil {
					b, _ := json.Marshal(r)
					st.fail(&docViolation{Property: *prop, Message: fmt.Sprintf("after 9000 recovered rejections of nested unsupported values: %s via %s (%s): %v", r.Cls, r.Ep, r.Ctx, err),
						Sig: "convert-after-rejections: " + r.Cls, Check: "convert", Input: string(b), Text: fmt.Sprintf("%#v", m.v), Seed: *seed})
					break
				}
			}
			if st.nviol() > 0 {
				break
			}
		}
	}
	return finishDocs(*prop, st, *out, *replayDir, map[string]any{"tlc_records": len(recs), "wall_s": time.Since(start).Seconds()})
}

func init() {
	extraCmds["convert"] = cmdConvert
}
