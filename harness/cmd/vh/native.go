package main

import (
	"flag"
	"fmt"
	"math/rand"
	"reflect"
	"sync/atomic"
	"time"

	at "github.com/DanielSvub/anytype"
)

// nativetrees (stage of C13): random WIDE native trees — maps with many keys whose values are maps with many keys, slices
// of maps, … — converted in one process, one after the other: NewObjectFrom(m).NativeDict() and NewListFrom(s).NativeSlice()
// must be deep-equal to the input (canonical scalars), later changes of the input or of the export must not reach the
// container, and an earlier conversion must not influence a later one. The exhaustive configs of Heap.tla hold one or two
// keys per map; this stage covers width.

func randNative(rng *rand.Rand, depth int, wide int) any {
	if depth <= 0 || rng.Intn(5) == 0 {
		switch rng.Intn(6) {
		case 0:
			return nil
		case 1:
			return rng.Intn(2) == 0
		case 2:
			return rng.Intn(2000) - 1000
		case 3:
			return float64(rng.Intn(64)) / 4
		case 4:
			return fmt.Sprintf("s%d", rng.Intn(50))
		}
		return ""
	}
	if rng.Intn(2) == 0 {
		n := rng.Intn(wide + 1)
		m := make(map[string]any, n)
		for i := 0; i < n; i++ {
			m[fmt.Sprintf("k%d", rng.Intn(3*wide))] = randNative(rng, depth-1, wide)
		}
		return m
	}
	n := rng.Intn(wide + 1)
	s := make([]any, 0, n)
	for i := 0; i < n; i++ {
		s = append(s, randNative(rng, depth-1, wide))
	}
	return s
}

func cloneNative(v any) any {
	switch x := v.(type) {
	case map[string]any:
		m := make(map[string]any, len(x))
		for k, e := range x {
			m[k] = cloneNative(e)
		}
		return m
	case []any:
		s := make([]any, len(x))
		for i, e := range x {
			s[i] = cloneNative(e)
		}
		return s
	}
	return v
}

// scribble changes every map and slice of a native tree in place.
func scribble(v any) {
	switch x := v.(type) {
	case map[string]any:
		for _, e := range x {
			scribble(e)
		}
		for k := range x {
			delete(x, k)
			break
		}
		x["scribbled"] = 1
	case []any:
		for i, e := range x {
			scribble(e)
			if i == 0 {
				x[0] = "scribbled"
			}
		}
	}
}

func checkNativeTree(v any) error {
	return guard(func() error {
		want := cloneNative(v)
		var back any
		var again func() any
		var text func() string
		switch x := v.(type) {
		case map[string]any:
			o := at.NewObjectFrom(x)
			back = o.NativeDict()
			again = func() any { return o.NativeDict() }
			text = func() string { return o.String() }
		case []any:
			l := at.NewListFrom(x)
			back = l.NativeSlice()
			again = func() any { return l.NativeSlice() }
			text = func() string { return l.String() }
		default:
			return nil
		}
		if !reflect.DeepEqual(back, want) {
			return fmt.Errorf("conversion to a container and back is not deep-equal to the input: got %v, input %v", back, want)
		}
		scribble(v) // the source changes
		if b2 := again(); !reflect.DeepEqual(b2, want) {
			return fmt.Errorf("changing the source after the conversion changed the container: now %v, was %v", b2, want)
		}
		scribble(back) // the export changes
		if b3 := again(); !reflect.DeepEqual(b3, want) {
			return fmt.Errorf("changing an exported native value changed the container: now %v, was %v", b3, want)
		}
		_ = text()
		return nil
	})
}

func cmdNativeTrees(args []string) int {
	fs := flag.NewFlagSet("nativetrees", flag.ExitOnError)
	prop := fs.String("prop", "C13", "property id")
	seed := fs.Int64("seed", 1, "seed")
	n := fs.Int("n", 4000, "trees")
	out := fs.String("out", "", "summary file")
	replayDir := fs.String("replaydir", "", "replay dir")
	fs.Parse(args)
	start := time.Now()
	st := newDocStats()
	// sequential on purpose: state an earlier conversion leaves behind must meet the next one
	rng := rand.New(rand.NewSource(*seed))
	for i := 0; i < *n && st.nviol() == 0; i++ {
		wide := []int{2, 3, 5, 8, 12}[i%5]
		depth := 2 + i%3
		v := randNative(rng, depth, wide)
		if _, ok := v.(map[string]any); !ok {
			if _, ok := v.([]any); !ok {
				v = map[string]any{"only": v, "m": randNative(rng, depth, wide), "z": map[string]any{"a": 1, "b": 2, "c": []any{1, map[string]any{"p": 1, "q": 2, "r": 3}}}}
			}
		}
		desc := fmt.Sprintf("%v", v)
		if len(desc) > 400 {
			desc = desc[:400] + "..."
		}
		atomic.AddInt64(&st.evals, 1)
		st.seen(desc)
		if i%997 == 0 {
			st.sample(desc)
		}
		if err := checkNativeTree(v); err != nil {
			msg := fmt.Sprintf("native tree %d (width <= %d, depth <= %d, %d conversions earlier in this process): %v", i, wide, depth, i, err)
			sig := err.Error()
			if len(sig) > 80 {
				sig = sig[:80]
			}
			st.fail(&docViolation{Property: *prop, Message: msg, Sig: "nativetrees: " + sig, Check: "nativetrees", Input: desc, Seed: *seed, Index: i})
		}
	}
	return finishDocs(*prop, st, *out, *replayDir, map[string]any{"native_trees": *n, "wall_s": time.Since(start).Seconds()})
}

func init() { extraCmds["nativetrees"] = cmdNativeTrees }
