package main

import (
	"bufio"
	"encoding/json"
	"flag"
	"fmt"
	"math"
	"math/big"
	"os"
	"reflect"
	"sort"
	"strings"
	"sync/atomic"
	"time"

	at "github.com/DanielSvub/anytype"
)

// views: records printed by TLC from spec/Views.tla (typed views C14, Sort/Reverse C17, aggregates C18).

type vtok struct {
	K string
	V int
}

func (t *vtok) UnmarshalJSON(b []byte) error {
	var raw []json.RawMessage
	if err := json.Unmarshal(b, &raw); err != nil || len(raw) != 2 {
		return fmt.Errorf("token: %s", b)
	}
	json.Unmarshal(raw[0], &t.K)
	return json.Unmarshal(raw[1], &t.V)
}

func (t vtok) MarshalJSON() ([]byte, error) { return []byte(fmt.Sprintf(`[%q,%d]`, t.K, t.V)), nil }

func (s vsel) MarshalJSON() ([]byte, error) {
	return []byte(fmt.Sprintf(`[%d,[%q,%d]]`, s.I, s.T.K, s.T.V)), nil
}

type vsel struct {
	I int
	T vtok
}

func (s *vsel) UnmarshalJSON(b []byte) error {
	var raw []json.RawMessage
	if err := json.Unmarshal(b, &raw); err != nil || len(raw) != 2 {
		return fmt.Errorf("sel: %s", b)
	}
	json.Unmarshal(raw[0], &s.I)
	return json.Unmarshal(raw[1], &s.T)
}

type vagg struct {
	Sum4, ProdN, Nf, Min4, Max4, Count, Isum, Iprod, Imin, Imax int
	Numeric                                                     bool
}

type listRec struct {
	List       []vtok            `json:"list"`
	Sel        map[string][]vsel `json:"sel"`
	Nil        []vsel            `json:"nil"`
	All        []string          `json:"all"`
	AllNumeric bool              `json:"allNumeric"`
	Rev        []vtok            `json:"rev"`
	SortDomain bool              `json:"sortDomain"`
	SortPanics bool              `json:"sortPanics"`
	Sorted     []vtok            `json:"sorted"`
	Agg        vagg              `json:"agg"`
	// object mode
	Obj    []vtok            `json:"obj"`
	Fields map[string][]vsel `json:"fields"`
	Count  int               `json:"count"`
}

func loadListRecs(path string) ([]*listRec, error) {
	f, err := os.Open(path)
	if err != nil {
		return nil, err
	}
	defer f.Close()
	var out []*listRec
	rd := bufio.NewReaderSize(f, 1<<20)
	for {
		line, err := rd.ReadString('\n')
		if strings.HasPrefix(line, `"{`) {
			var inner string
			if e := json.Unmarshal([]byte(strings.TrimRight(line, "\r\n")), &inner); e != nil {
				return nil, e
			}
			var r listRec
			if e := json.Unmarshal([]byte(inner), &r); e != nil {
				return nil, fmt.Errorf("bad record: %v: %.300s", e, inner)
			}
			out = append(out, &r)
		}
		if err != nil {
			break
		}
	}
	return out, nil
}

// vconc maps element tokens to Go values.
type vconc struct {
	mode   string // id | scale | extreme | zeros
	shift  uint   // scale: ints v<<shift, floats (q/4)*2^shift
	objs   map[int]at.Object
	lists  map[int]at.List
	strs   []string
	intExt map[int]int
	fltExt map[int]float64
	// derivedElems: O/L tokens are user types embedding Object/List (they are Objects/Lists for every typed view)
	derivedElems bool
}

var vstrs = []string{"", "A", "a", "ab", "b", "ž", "😀"}

func newVconc(mode string, shift uint) *vconc {
	c := &vconc{mode: mode, shift: shift, objs: map[int]at.Object{}, lists: map[int]at.List{}, strs: vstrs}
	if mode == "extremeAgg" {
		// aggregate alphabet -2..3: the smallest token is MinInt, the largest MaxInt
		c.mode = "extreme"
		c.intExt = map[int]int{-2: math.MinInt, -1: -1, 0: 0, 1: 1, 2: 1<<53 + 1, 3: math.MaxInt}
		c.fltExt = map[int]float64{}
		mode = ""
	}
	if mode == "extreme" {
		ints := []int{math.MinInt, math.MinInt + 1, -(1 << 53) - 1, -1, 0, 1, 1<<53 + 1, math.MaxInt - 1, math.MaxInt}
		c.intExt = map[int]int{}
		for i, v := range ints {
			c.intExt[i-4] = v
		}
		flts := []float64{math.Inf(-1), -math.MaxFloat64, -1.5, -math.SmallestNonzeroFloat64, 0, math.SmallestNonzeroFloat64, 1e300, math.MaxFloat64, math.Inf(1)}
		c.fltExt = map[int]float64{}
		for i, v := range flts {
			c.fltExt[i-4] = v
		}
	}
	return c
}

func (c *vconc) val(t vtok) any {
	switch t.K {
	case "nil":
		return nil
	case "bool":
		if c.mode == "zerovals" {
			return t.V != 1
		}
		return t.V == 1
	case "int":
		switch c.mode {
		case "zerovals":
			if t.V == 1 {
				return 0
			}
		case "big53":
			return (1 << 53) + t.V // neighbours of 2^53: distinct ints that collapse as float64
		case "x256":
			return t.V * 256 // multiples of 256 / 4096 / 2^32: all keys share their low bytes (byte-wise sorts)
		case "x4096":
			return t.V * 4096
		case "x2p32":
			return t.V << 32
		case "scale":
			return t.V << c.shift
		case "extreme":
			if v, ok := c.intExt[t.V]; ok {
				return v
			}
		}
		return t.V
	case "float":
		switch c.mode {
		case "zerovals":
			if t.V == 2 {
				return 0.0
			}
		case "scale":
			return math.Ldexp(float64(t.V), int(c.shift)-2)
		case "extreme":
			if v, ok := c.fltExt[t.V]; ok {
				return v
			}
		case "zeros":
			// tokens 0 and -1 become +0.0 and -0.0 (equal, distinguishable by the sign bit)
			if t.V == 0 {
				return 0.0
			}
			if t.V == -1 {
				return math.Copysign(0, -1)
			}
		}
		return float64(t.V) / 4
	case "str":
		if c.mode == "zerovals" {
			return c.strs[(((t.V-1)%len(c.strs))+len(c.strs))%len(c.strs)] // token 1 is the empty string
		}
		return c.strs[((t.V%len(c.strs))+len(c.strs))%len(c.strs)]
	case "O":
		if o, ok := c.objs[t.V]; ok {
			return o
		}
		var o at.Object
		if c.mode == "zeros" || c.mode == "zerovals" {
			o = at.NewObject() // equal content, distinct identity
		} else {
			o = at.NewObject("id", t.V)
		}
		if c.derivedElems {
			d := &dObj{Object: o}
			d.Init(d)
			o = d
		}
		c.objs[t.V] = o
		return o
	case "L":
		if l, ok := c.lists[t.V]; ok {
			return l
		}
		var l at.List
		if c.mode == "zeros" || c.mode == "zerovals" {
			l = at.NewList()
		} else {
			l = at.NewList(t.V)
		}
		if c.derivedElems {
			d := &dList{List: l}
			d.Init(d)
			l = d
		}
		c.lists[t.V] = l
		return l
	}
	panic("views: bad token kind " + t.K)
}

func sameVal(a, b any) bool {
	if a == nil || b == nil {
		return a == nil && b == nil
	}
	if reflect.TypeOf(a) != reflect.TypeOf(b) {
		return false
	}
	if fa, ok := a.(float64); ok {
		return math.Float64bits(fa) == math.Float64bits(b.(float64))
	}
	return a == b
}

func describe(vals []any) string {
	parts := make([]string, len(vals))
	for i, v := range vals {
		switch x := v.(type) {
		case at.List:
			parts[i] = fmt.Sprintf("List%p", x)
		case at.Object:
			parts[i] = fmt.Sprintf("Object%p", x)
		case float64:
			parts[i] = fmt.Sprintf("%v(%016x)", x, math.Float64bits(x))
		default:
			parts[i] = fmt.Sprintf("%#v", v)
		}
	}
	return "[" + strings.Join(parts, ", ") + "]"
}

func cmpSeq(name string, got, want []any) error {
	if len(got) != len(want) {
		return fmt.Errorf("%s: %d elements %s, want %d %s", name, len(got), describe(got), len(want), describe(want))
	}
	for i := range got {
		if !sameVal(got[i], want[i]) {
			return fmt.Errorf("%s: element %d differs: got %s want %s", name, i, describe(got), describe(want))
		}
	}
	return nil
}

func listContent(l at.List) []any {
	out := make([]any, l.Count())
	for i := range out {
		out[i] = l.Get(i)
	}
	return out
}

// builders vary how the list is put together (element boxes may be shared with another list)
func buildList(vals []any, how int) (l at.List, base at.List) {
	switch how % 4 {
	case 1:
		base = at.NewList(vals...)
		return base.SubList(0, 0), base
	case 2:
		h := len(vals) / 2
		a, b := at.NewList(vals[:h]...), at.NewList(vals[h:]...)
		base = a
		return a.Concat(b), a
	case 3:
		if len(vals) > 0 {
			l = at.NewListOf(vals[0], len(vals))
			for i := 1; i < len(vals); i++ {
				l.Replace(i, vals[i])
			}
			return l, nil
		}
	}
	return at.NewList(vals...), nil
}

func toAnySlice(x any) []any {
	rv := reflect.ValueOf(x)
	out := make([]any, rv.Len())
	for i := range out {
		out[i] = rv.Index(i).Interface()
	}
	return out
}

type tag struct {
	i int
	v any
}

// checkViews: C14 on one list.
func checkViews(r *listRec, how int) error {
	// builds 2, 3 and 5 run on extreme values (ints beyond 2^53, MinInt/MaxInt, infinities); odd builds use re-entrant
	// callbacks (every callback reads other typed views of the same list while the outer view is running)
	// build 6 runs on the zero value of every kind ("" 0 0.0 false, empty containers): a view that treats a zero value as
	// "nothing there" is seen
	mode := "id"
	if how == 2 || how == 3 || how == 5 {
		mode = "extreme"
	}
	if how == 6 {
		mode = "zerovals"
	}
	reentrant := how%2 == 1
	c := newVconc(mode, 0)
	c.derivedElems = how >= 4
	how = how % 4
	vals := make([]any, len(r.List))
	for i, t := range r.List {
		vals[i] = c.val(t)
	}
	l, _ := buildList(vals, how)
	want := func(k string) []any {
		var out []any
		for _, s := range r.Sel[k] {
			out = append(out, c.val(s.T))
		}
		return out
	}
	idx := func(k string) []int {
		var out []int
		for _, s := range r.Sel[k] {
			out = append(out, s.I)
		}
		return out
	}
	_ = idx
	// typed slices
	for _, k := range []struct {
		kind string
		got  func() any
	}{{"O", func() any { return l.ObjectSlice() }}, {"L", func() any { return l.ListSlice() }}, {"str", func() any { return l.StringSlice() }},
		{"bool", func() any { return l.BoolSlice() }}, {"int", func() any { return l.IntSlice() }}, {"float", func() any { return l.FloatSlice() }}} {
		if err := cmpSeq(k.kind+" slice", toAnySlice(k.got()), want(k.kind)); err != nil {
			return err
		}
	}
	poke := func() {
		if reentrant {
			l.IntSlice()
			l.StringSlice()
			l.FloatSlice()
			l.BoolSlice()
			l.ObjectSlice()
			l.ListSlice()
			l.MapInts(func(x int) any { return x })
			l.FilterStrings(func(string) bool { return true })
		}
	}
	// ForEachX: call log
	var log []any
	rec := func(v any) { log = append(log, v); poke() }
	fe := map[string]func(){
		"O":     func() { l.ForEachObject(func(x at.Object) { rec(x) }) },
		"L":     func() { l.ForEachList(func(x at.List) { rec(x) }) },
		"str":   func() { l.ForEachString(func(x string) { rec(x) }) },
		"bool":  func() { l.ForEachBool(func(x bool) { rec(x) }) },
		"int":   func() { l.ForEachInt(func(x int) { rec(x) }) },
		"float": func() { l.ForEachFloat(func(x float64) { rec(x) }) },
	}
	for k, f := range fe {
		log = nil
		f()
		if err := cmpSeq("ForEach "+k+" calls", log, want(k)); err != nil {
			return err
		}
	}
	// untyped ForEach / ForEachValue
	var ilog []int
	log = nil
	l.ForEach(func(i int, v any) { ilog = append(ilog, i); rec(v) })
	if err := cmpSeq("ForEach calls", log, vals); err != nil {
		return err
	}
	for i, x := range ilog {
		if x != i {
			return fmt.Errorf("ForEach passed index %d at position %d", x, i)
		}
	}
	log = nil
	l.ForEachValue(rec)
	if err := cmpSeq("ForEachValue calls", log, vals); err != nil {
		return err
	}
	// untyped Reduce: every element once, in order, starting from the initial value as given (nil, a number, a slice)
	for _, init := range []any{nil, 0, "seed", []any{}} {
		log = nil
		first := true
		var firstAcc any
		res := l.Reduce(init, func(acc, x any) any {
			if first {
				first, firstAcc = false, acc
			}
			rec(x)
			return acc
		})
		if err := cmpSeq(fmt.Sprintf("Reduce(%#v) calls", init), log, vals); err != nil {
			return err
		}
		if len(vals) > 0 && !reflect.DeepEqual(firstAcc, init) {
			return fmt.Errorf("Reduce(%#v): the first call received the accumulator %#v", init, firstAcc)
		}
		if !reflect.DeepEqual(res, init) {
			return fmt.Errorf("Reduce(%#v) with a callback that returns the accumulator gives %#v", init, res)
		}
	}
	// MapX with an injective tag of (call number, value): the result determines the call sequence
	n := 0
	mk := func(v any) any { n++; poke(); return fmt.Sprintf("%d:%T:%v", n, v, idOf(v)) }
	expectTags := func(ws []any) []any {
		out := make([]any, len(ws))
		for i, w := range ws {
			out[i] = fmt.Sprintf("%d:%T:%v", i+1, w, idOf(w))
		}
		return out
	}
	maps := map[string]func() at.List{
		"O":     func() at.List { return l.MapObjects(func(x at.Object) any { return mk(x) }) },
		"L":     func() at.List { return l.MapLists(func(x at.List) any { return mk(x) }) },
		"str":   func() at.List { return l.MapStrings(func(x string) any { return mk(x) }) },
		"bool":  func() at.List { return l.MapBools(func(x bool) any { return mk(x) }) },
		"int":   func() at.List { return l.MapInts(func(x int) any { return mk(x) }) },
		"float": func() at.List { return l.MapFloats(func(x float64) any { return mk(x) }) },
	}
	for k, f := range maps {
		n = 0
		res := f()
		if res == l {
			return fmt.Errorf("Map %s returned the receiver", k)
		}
		if err := cmpSeq("Map "+k+" result", listContent(res), expectTags(want(k))); err != nil {
			return err
		}
	}
	// a callback that returns nil for odd calls: the element must still be present (as nil)
	nilOdd := func(ws []any) []any {
		out := make([]any, len(ws))
		for i, w := range ws {
			if i%2 == 0 {
				out[i] = nil
			} else {
				out[i] = fmt.Sprintf("%T:%v", w, idOf(w))
			}
		}
		return out
	}
	mkNil := func(v any) any {
		n++
		poke()
		if n%2 == 1 {
			return nil
		}
		return fmt.Sprintf("%T:%v", v, idOf(v))
	}
	mapsNil := map[string]func() at.List{
		"O":     func() at.List { return l.MapObjects(func(x at.Object) any { return mkNil(x) }) },
		"L":     func() at.List { return l.MapLists(func(x at.List) any { return mkNil(x) }) },
		"str":   func() at.List { return l.MapStrings(func(x string) any { return mkNil(x) }) },
		"bool":  func() at.List { return l.MapBools(func(x bool) any { return mkNil(x) }) },
		"int":   func() at.List { return l.MapInts(func(x int) any { return mkNil(x) }) },
		"float": func() at.List { return l.MapFloats(func(x float64) any { return mkNil(x) }) },
	}
	for k, f := range mapsNil {
		n = 0
		if err := cmpSeq("Map "+k+" with a callback returning nil", listContent(f()), nilOdd(want(k))); err != nil {
			return err
		}
	}
	n = 0
	if err := cmpSeq("MapValues with a callback returning nil", listContent(l.MapValues(func(v any) any { return mkNil(v) })), nilOdd(vals)); err != nil {
		return err
	}
	n = 0
	res := l.Map(func(i int, v any) any { return fmt.Sprintf("%d|%s", i, mk(v)) })
	exp := expectTags(vals)
	for i := range exp {
		exp[i] = fmt.Sprintf("%d|%s", i, exp[i])
	}
	if err := cmpSeq("Map result", listContent(res), exp); err != nil {
		return err
	}
	n = 0
	if err := cmpSeq("MapValues result", listContent(l.MapValues(func(v any) any { return mk(v) })), expectTags(vals)); err != nil {
		return err
	}
	// FilterX: predicates decided by call number (keep odd calls, keep all, keep none)
	for _, pred := range []struct {
		name string
		keep func(call int) bool
	}{{"all", func(int) bool { return true }}, {"none", func(int) bool { return false }}, {"odd", func(c int) bool { return c%2 == 1 }}, {"first", func(c int) bool { return c == 1 }}} {
		sel := func(ws []any) []any {
			var out []any
			for i, w := range ws {
				if pred.keep(i + 1) {
					out = append(out, w)
				}
			}
			return out
		}
		call := 0
		p := func() bool { call++; return pred.keep(call) }
		filters := map[string]func() at.List{
			"O":     func() at.List { return l.FilterObjects(func(at.Object) bool { return p() }) },
			"L":     func() at.List { return l.FilterLists(func(at.List) bool { return p() }) },
			"str":   func() at.List { return l.FilterStrings(func(string) bool { return p() }) },
			"int":   func() at.List { return l.FilterInts(func(int) bool { return p() }) },
			"float": func() at.List { return l.FilterFloats(func(float64) bool { return p() }) },
		}
		for k, f := range filters {
			call = 0
			if err := cmpSeq("Filter "+k+" ("+pred.name+")", listContent(f()), sel(want(k))); err != nil {
				return err
			}
			if call != len(want(k)) {
				return fmt.Errorf("Filter %s (%s) called the predicate %d times, want %d", k, pred.name, call, len(want(k)))
			}
		}
		call = 0
		if err := cmpSeq("Filter ("+pred.name+")", listContent(l.Filter(func(any) bool { return p() })), sel(vals)); err != nil {
			return err
		}
	}
	// ReduceX: order-sensitive free folds
	strs := want("str")
	wantS := "^"
	for _, s := range strs {
		wantS = "(" + wantS + "," + s.(string) + ")"
	}
	if got := l.ReduceStrings("^", func(a, b string) string { return "(" + a + "," + b + ")" }); got != wantS {
		return fmt.Errorf("ReduceStrings = %q, want %q", got, wantS)
	}
	wantI := 7
	for _, v := range want("int") {
		wantI = wantI*31 + v.(int)
	}
	if got := l.ReduceInts(7, func(a, b int) int { return a*31 + b }); got != wantI {
		return fmt.Errorf("ReduceInts = %d, want %d", got, wantI)
	}
	wantF := 1.0
	for _, v := range want("float") {
		wantF = wantF*2 + v.(float64)
	}
	if got := l.ReduceFloats(1, func(a, b float64) float64 { return a*2 + b }); got != wantF {
		return fmt.Errorf("ReduceFloats = %v, want %v", got, wantF)
	}
	gotAny := l.Reduce([]any{}, func(a, b any) any { return append(a.([]any), b) }).([]any)
	if err := cmpSeq("Reduce calls", gotAny, vals); err != nil {
		return err
	}
	// AllX
	all := map[string]bool{}
	for _, k := range r.All {
		all[k] = true
	}
	for k, got := range map[string]bool{"O": l.AllObjects(), "L": l.AllLists(), "str": l.AllStrings(), "bool": l.AllBools(), "int": l.AllInts(), "float": l.AllFloats()} {
		if got != all[k] {
			return fmt.Errorf("All %s = %v, want %v", k, got, all[k])
		}
	}
	if l.AllNumeric() != r.AllNumeric {
		return fmt.Errorf("AllNumeric = %v, want %v", l.AllNumeric(), r.AllNumeric)
	}
	// nothing modified the list
	return cmpSeq("list after the view calls", listContent(l), vals)
}

func idOf(v any) any {
	switch x := v.(type) {
	case at.List:
		return fmt.Sprintf("%p", x)
	case at.Object:
		return fmt.Sprintf("%p", x)
	}
	return v
}

// C14 after a mutation history: All*/views must follow Insert/Replace/Delete (stale caches)
func checkViewsHistory(r *listRec) error {
	if len(r.List) < 2 {
		return nil
	}
	c := newVconc("id", 0)
	vals := make([]any, len(r.List))
	for i, t := range r.List {
		vals[i] = c.val(t)
	}
	// build the list by inserting the middle element last, calling All* before
	mid := len(vals) / 2
	rest := append(append([]any{}, vals[:mid]...), vals[mid+1:]...)
	l := at.NewList(rest...)
	l.AllInts()
	l.AllStrings()
	l.AllNumeric()
	l.AllObjects()
	l.AllLists()
	l.AllFloats()
	l.AllBools()
	l.Insert(mid, vals[mid])
	all := map[string]bool{}
	for _, k := range r.All {
		all[k] = true
	}
	for k, got := range map[string]bool{"O": l.AllObjects(), "L": l.AllLists(), "str": l.AllStrings(), "bool": l.AllBools(), "int": l.AllInts(), "float": l.AllFloats()} {
		if got != all[k] {
			return fmt.Errorf("after AllX; Insert(%d, ...): All %s = %v, want %v (list %s)", mid, k, got, all[k], describe(vals))
		}
	}
	if l.AllNumeric() != r.AllNumeric {
		return fmt.Errorf("after AllX; Insert: AllNumeric = %v, want %v", l.AllNumeric(), r.AllNumeric)
	}
	// same with Replace and Delete
	l2 := at.NewList(vals...)
	l2.Add(vals[0])
	l2.AllInts()
	l2.AllNumeric()
	l2.Replace(len(vals), "sentinel")
	if l2.AllInts() || l2.AllNumeric() {
		return fmt.Errorf("after Replace with a string: AllInts/AllNumeric still true")
	}
	l2.Delete(len(vals))
	for k, got := range map[string]bool{"O": l2.AllObjects(), "L": l2.AllLists(), "str": l2.AllStrings(), "bool": l2.AllBools(), "int": l2.AllInts(), "float": l2.AllFloats()} {
		if got != all[k] {
			return fmt.Errorf("after Replace; Delete: All %s = %v, want %v", k, got, all[k])
		}
	}
	return cmpSeq("list after history", listContent(l), vals)
}

// checkSort: C17 on one list.
func signs(xs []any) string {
	var b strings.Builder
	for _, x := range xs {
		if f, ok := x.(float64); ok && math.Signbit(f) {
			b.WriteByte('-')
		} else {
			b.WriteByte('+')
		}
	}
	return b.String()
}

func checkSort(r *listRec, how int, mode string) error {
	c := newVconc(mode, 0)
	vals := make([]any, len(r.List))
	for i, t := range r.List {
		vals[i] = c.val(t)
	}
	conv := func(ts []vtok) []any {
		out := make([]any, len(ts))
		for i, t := range ts {
			out[i] = c.val(t)
		}
		return out
	}
	// Reverse: position i -> n-1-i, in place, identity preserved, involution
	l, base := buildList(vals, how)
	var baseBefore []any
	if base != nil {
		baseBefore = listContent(base)
	}
	if ret := l.Reverse(); ret != l {
		return fmt.Errorf("Reverse returned another list")
	}
	if err := cmpSeq("Reverse", listContent(l), conv(r.Rev)); err != nil {
		return err
	}
	l.Reverse()
	if err := cmpSeq("Reverse twice", listContent(l), vals); err != nil {
		return err
	}
	if base != nil {
		if err := cmpSeq("list sharing elements with the reversed one", listContent(base), baseBefore); err != nil {
			return err
		}
	}
	if mode == "zeros" {
		// +0.0 and -0.0 compare equal: their mutual order after Sort is free, but the result is still a permutation of the
		// very same values (sign bits included) in non-decreasing order
		if !r.SortDomain || r.SortPanics || len(vals) == 0 {
			return nil
		}
		if _, isFloat := vals[0].(float64); !isFloat {
			return nil
		}
		lz, _ := buildList(vals, how)
		lz.Sort()
		got := listContent(lz)
		if len(got) != len(vals) {
			return fmt.Errorf("Sort changed the length of %v to %d", vals, len(got))
		}
		count := map[uint64]int{}
		for _, v := range vals {
			count[math.Float64bits(v.(float64))]++
		}
		for i, g := range got {
			f, ok := g.(float64)
			if !ok {
				return fmt.Errorf("Sort of floats %v yields a %T at %d", vals, g, i)
			}
			count[math.Float64bits(f)]--
			if i > 0 && f < got[i-1].(float64) {
				return fmt.Errorf("Sort of %v is not non-decreasing: %v", vals, got)
			}
		}
		for bits, n := range count {
			if n != 0 {
				return fmt.Errorf("Sort of %v is not a permutation of the same values (bit pattern %#x of %v differs by %d): %v; signs %v", vals, bits, math.Float64frombits(bits), n, got, signs(got))
			}
		}
		return nil
	}
	if r.SortPanics {
		l2, _ := buildList(vals, how)
		p := func() (p any) { defer func() { p = recover() }(); l2.Sort(); return nil }()
		if p == nil {
			return fmt.Errorf("Sort did not panic on a list whose first element is %T", vals[0])
		}
		return cmpSeq("list after a panicking Sort", listContent(l2), vals)
	}
	if !r.SortDomain {
		return nil
	}
	l3, base3 := buildList(vals, how)
	sub := l3.SubList(0, 0)
	cat := l3.Concat(l3)
	var b3 []any
	if base3 != nil {
		b3 = listContent(base3)
	}
	if ret := l3.Sort(); ret != l3 {
		return fmt.Errorf("Sort returned another list")
	}
	sorted := conv(r.Sorted)
	if err := cmpSeq("Sort", listContent(l3), sorted); err != nil {
		return err
	}
	if err := cmpSeq("SubList taken before Sort", listContent(sub), vals); err != nil {
		return err
	}
	if err := cmpSeq("Concat taken before Sort", listContent(cat), append(append([]any{}, vals...), vals...)); err != nil {
		return err
	}
	if base3 != nil {
		if err := cmpSeq("list sharing elements with the sorted one", listContent(base3), b3); err != nil {
			return err
		}
	}
	l3.Sort()
	if err := cmpSeq("Sort twice", listContent(l3), sorted); err != nil {
		return err
	}
	// Sort; Reverse; Sort: the second Sort has to sort again
	l3.Reverse()
	l3.Sort()
	if err := cmpSeq("Sort after Sort;Reverse", listContent(l3), sorted); err != nil {
		return err
	}
	// sorting the derived copies must not disturb the sorted original either
	cat.Sort()
	if err := cmpSeq("original after sorting its Concat", listContent(l3), sorted); err != nil {
		return err
	}
	return nil
}

func bigToInt64(b *big.Int) int {
	m := new(big.Int).And(b, new(big.Int).SetUint64(math.MaxUint64))
	return int(int64(m.Uint64()))
}

// checkAgg: C18 on one list.
func checkAgg(r *listRec, how int, mode string, shift uint) error {
	c := newVconc(mode, shift)
	if mode == "extremeAgg" {
		mode = "extreme"
	}
	vals := make([]any, len(r.List))
	for i, t := range r.List {
		vals[i] = c.val(t)
	}
	l, _ := buildList(vals, how)
	a := r.Agg
	ni := 0
	for _, t := range r.List {
		if t.K == "int" {
			ni++
		}
	}
	nn := ni + a.Nf
	// Int* family over the int elements of any list
	var wantISum, wantIProd, wantIMin, wantIMax int
	switch mode {
	case "id":
		wantISum, wantIProd, wantIMin, wantIMax = a.Isum, a.Iprod, a.Imin, a.Imax
	case "scale":
		s := new(big.Int).Lsh(big.NewInt(int64(a.Isum)), shift)
		wantISum = bigToInt64(s)
		p := new(big.Int).Lsh(big.NewInt(int64(a.Iprod)), shift*uint(ni))
		wantIProd = bigToInt64(p)
		wantIMin, wantIMax = a.Imin<<shift, a.Imax<<shift
	case "extreme":
		wantIMin, wantIMax = 0, 0
		if ni > 0 {
			wantIMin, wantIMax = c.val(vtok{"int", a.Imin}).(int), c.val(vtok{"int", a.Imax}).(int)
		}
	}
	if mode != "extreme" {
		if got := l.IntSum(); got != wantISum {
			return fmt.Errorf("IntSum = %d, want %d", got, wantISum)
		}
		if got := l.IntProd(); got != wantIProd {
			return fmt.Errorf("IntProd = %d, want %d", got, wantIProd)
		}
	}
	if got := l.IntMin(); got != wantIMin {
		return fmt.Errorf("IntMin = %d, want %d", got, wantIMin)
	}
	if got := l.IntMax(); got != wantIMax {
		return fmt.Errorf("IntMax = %d, want %d", got, wantIMax)
	}
	// float family on all-numeric lists
	if a.Numeric {
		sh := 0
		if mode == "scale" {
			sh = int(shift)
		}
		if mode != "extreme" {
			wantSum := math.Ldexp(float64(a.Sum4), sh-2)
			if got := l.Sum(); got != wantSum {
				return fmt.Errorf("Sum = %v, want %v", got, wantSum)
			}
			wantProd := math.Ldexp(float64(a.ProdN), sh*nn-2*a.Nf)
			if nn == 0 {
				wantProd = 1
			}
			if got := l.Prod(); got != wantProd {
				return fmt.Errorf("Prod = %v, want %v", got, wantProd)
			}
			if a.Count > 0 {
				wantAvg := wantSum / float64(a.Count)
				if got := l.Avg(); got != wantAvg {
					return fmt.Errorf("Avg = %v, want %v", got, wantAvg)
				}
			}
			wantMin, wantMax := math.Ldexp(float64(a.Min4), sh-2), math.Ldexp(float64(a.Max4), sh-2)
			if got := l.Min(); got != wantMin {
				return fmt.Errorf("Min = %v, want %v", got, wantMin)
			}
			if got := l.Max(); got != wantMax {
				return fmt.Errorf("Max = %v, want %v", got, wantMax)
			}
		} else if nn > 0 && (ni == 0 || a.Nf == 0) {
			// extreme monotone images on kind-homogeneous lists: Min/Max are the images of the extreme tokens
			fs := make([]float64, 0, nn)
			for _, v := range vals {
				switch x := v.(type) {
				case int:
					fs = append(fs, float64(x))
				case float64:
					if math.IsInf(x, 0) {
						return nil // infinities are outside C18's domain
					}
					fs = append(fs, x)
				}
			}
			sort.Float64s(fs)
			if got := l.Min(); got != fs[0] {
				return fmt.Errorf("Min = %v, want %v", got, fs[0])
			}
			if got := l.Max(); got != fs[len(fs)-1] {
				return fmt.Errorf("Max = %v, want %v", got, fs[len(fs)-1])
			}
		}
	}
	if err := cmpSeq("list after the aggregate calls", listContent(l), vals); err != nil {
		return err
	}
	// the same aggregates after Sort().Reverse() (same multiset) on sortable lists
	homo := len(r.List) > 0 && (ni == len(r.List) || a.Nf == len(r.List))
	if homo && mode != "scale" {
		min0, max0, imin0, imax0 := l.Min(), l.Max(), l.IntMin(), l.IntMax()
		l.Sort()
		l.Reverse()
		if l.Min() != min0 || l.Max() != max0 || l.IntMin() != imin0 || l.IntMax() != imax0 {
			return fmt.Errorf("after Sort().Reverse() the extremes changed: Min %v->%v Max %v->%v IntMin %d->%d IntMax %d->%d", min0, l.Min(), max0, l.Max(), imin0, l.IntMin(), imax0, l.IntMax())
		}
		l.Sort()
		if l.Min() != min0 || l.Max() != max0 || l.IntMin() != imin0 || l.IntMax() != imax0 {
			return fmt.Errorf("after Sort() the extremes changed")
		}
	}
	return nil
}

// checkObjViews: C14 on one object.
func checkObjViews(r *listRec, keys []string, mode string) error {
	c := newVconc(mode, 0)
	o := at.NewObject()
	type kv struct {
		k string
		v any
	}
	all := []kv{}
	for i, t := range r.Obj {
		if t.K == "absent" {
			continue
		}
		o.Set(keys[i], c.val(t))
		all = append(all, kv{keys[i], c.val(t)})
	}
	wantOf := func(kind string) map[string]any {
		out := map[string]any{}
		for _, s := range r.Fields[kind] {
			out[keys[s.I-1]] = c.val(s.T)
		}
		return out
	}
	bag := func(m map[string]any) []any {
		var out []any
		for _, v := range m {
			out = append(out, v)
		}
		return out
	}
	sameBag := func(name string, got []any, want []any) error {
		if len(got) != len(want) {
			return fmt.Errorf("%s: %d calls %s, want %d %s", name, len(got), describe(got), len(want), describe(want))
		}
		used := make([]bool, len(want))
		for _, g := range got {
			found := false
			for i, w := range want {
				if !used[i] && sameVal(g, w) {
					used[i], found = true, true
					break
				}
			}
			if !found {
				return fmt.Errorf("%s: unexpected call with %s (want %s)", name, describe([]any{g}), describe(want))
			}
		}
		return nil
	}
	var log []any
	// every callback reads other views of the same object while the outer one is running (re-entrancy)
	poke := func() {
		o.Keys()
		o.Values()
		o.Count()
		o.ForEachInt(func(int) {})
		o.ForEachString(func(string) {})
		o.MapFloats(func(x float64) any { return x })
		o.Dict()
	}
	rec := func(v any) { log = append(log, v); poke() }
	fe := map[string]func(){
		"O":     func() { o.ForEachObject(func(x at.Object) { rec(x) }) },
		"L":     func() { o.ForEachList(func(x at.List) { rec(x) }) },
		"str":   func() { o.ForEachString(func(x string) { rec(x) }) },
		"bool":  func() { o.ForEachBool(func(x bool) { rec(x) }) },
		"int":   func() { o.ForEachInt(func(x int) { rec(x) }) },
		"float": func() { o.ForEachFloat(func(x float64) { rec(x) }) },
	}
	for k, f := range fe {
		log = nil
		f()
		if err := sameBag("object ForEach "+k, log, bag(wantOf(k))); err != nil {
			return err
		}
	}
	seen := map[string]any{}
	dup := false
	o.ForEach(func(k string, v any) {
		if _, d := seen[k]; d {
			dup = true
		}
		seen[k] = v
	})
	if dup || len(seen) != len(all) {
		return fmt.Errorf("object ForEach visited %d distinct keys (dup=%v), object has %d fields", len(seen), dup, len(all))
	}
	for _, e := range all {
		if v, ok := seen[e.k]; !ok || !sameVal(v, e.v) {
			return fmt.Errorf("object ForEach: key %q got %#v (visited %v), want %#v", e.k, v, ok, e.v)
		}
	}
	log = nil
	o.ForEachValue(rec)
	var allVals []any
	for _, e := range all {
		allVals = append(allVals, e.v)
	}
	if err := sameBag("object ForEachValue", log, allVals); err != nil {
		return err
	}
	// Map variants: result keyed identically, only fields of the kind
	tagv := func(v any) any { return fmt.Sprintf("%T:%v", v, idOf(v)) }
	maps := map[string]func() at.Object{
		"O":     func() at.Object { return o.MapObjects(func(x at.Object) any { return tagv(x) }) },
		"L":     func() at.Object { return o.MapLists(func(x at.List) any { return tagv(x) }) },
		"str":   func() at.Object { return o.MapStrings(func(x string) any { return tagv(x) }) },
		"bool":  func() at.Object { return o.MapBools(func(x bool) any { return tagv(x) }) },
		"int":   func() at.Object { return o.MapInts(func(x int) any { return tagv(x) }) },
		"float": func() at.Object { return o.MapFloats(func(x float64) any { return tagv(x) }) },
	}
	checkMap := func(name string, res at.Object, want map[string]any, withKey bool) error {
		if res.Count() != len(want) {
			return fmt.Errorf("%s: result has %d fields (%s), want %d", name, res.Count(), res.String(), len(want))
		}
		for k, v := range want {
			exp := tagv(v)
			if withKey {
				exp = k + "=" + exp.(string)
			}
			if !res.KeyExists(k) || res.Get(k) != exp {
				return fmt.Errorf("%s: result[%q] = %v, want %v (result %s)", name, k, func() any {
					if res.KeyExists(k) {
						return res.Get(k)
					}
					return "<missing>"
				}(), exp, res.String())
			}
		}
		return nil
	}
	for k, f := range maps {
		if err := checkMap("object Map "+k, f(), wantOf(k), false); err != nil {
			return err
		}
	}
	allMap := map[string]any{}
	for _, e := range all {
		allMap[e.k] = e.v
	}
	if err := checkMap("object Map", o.Map(func(k string, v any) any { return k + "=" + tagv(v).(string) }), allMap, true); err != nil {
		return err
	}
	if err := checkMap("object MapValues", o.MapValues(func(v any) any { return tagv(v) }), allMap, false); err != nil {
		return err
	}
	if o.Count() != r.Count {
		return fmt.Errorf("object Count = %d, want %d", o.Count(), r.Count)
	}
	return nil
}

// runViewsRecord runs every variant of one family on one record; returns the first failure.
func runViewsRecord(family string, r *listRec, seed int64, count *int64) (string, error) {
	keys := []string{"a", "", "k.#", "ž"}
	var fail error
	var failVariant string
	run := func(variant string, f func() error) bool {
		if count != nil {
			atomic.AddInt64(count, 1)
		}
		if err := guard(f); err != nil {
			fail, failVariant = err, variant
			return false
		}
		return true
	}
	switch family {
	case "views":
		for how := 0; how < 7; how++ {
			how := how
			if !run(fmt.Sprintf("build=%d", how), func() error { return checkViews(r, how) }) {
				return failVariant, fail
			}
		}
		run("history", func() error { return checkViewsHistory(r) })
	case "objviews":
		// also on the zero value of every kind ("" 0 0.0 false, empty containers)
		if run("object", func() error { return checkObjViews(r, keys, "id") }) {
			run("object conc=zerovals", func() error { return checkObjViews(r, keys, "zerovals") })
		}
	case "sort":
		for how := 0; how < 4; how++ {
			for _, mode := range []string{"id", "extreme", "zeros"} {
				how, mode := how, mode
				if !run(fmt.Sprintf("build=%d conc=%s", how, mode), func() error { return checkSort(r, how, mode) }) {
					return failVariant, fail
				}
			}
		}
	case "agg":
		for how := 0; how < 2; how++ {
			how := how
			if !run(fmt.Sprintf("build=%d conc=id", how), func() error { return checkAgg(r, how, "id", 0) }) {
				return failVariant, fail
			}
		}
		for _, sh := range []uint{3, 40, 61} {
			sh := sh
			if !run(fmt.Sprintf("conc=scale 2^%d", sh), func() error { return checkAgg(r, int(seed), "scale", sh) }) {
				return failVariant, fail
			}
		}
		run("conc=extreme", func() error { return checkAgg(r, int(seed)+1, "extremeAgg", 0) })
	}
	return failVariant, fail
}

func cmdViews(args []string) int {
	fs := flag.NewFlagSet("views", flag.ExitOnError)
	in := fs.String("in", "", "TLC output with list/object records")
	prop := fs.String("prop", "", "property id")
	family := fs.String("family", "views", "views|objviews|sort|agg")
	seed := fs.Int64("seed", 1, "seed")
	workers := fs.Int("workers", 16, "goroutines")
	out := fs.String("out", "", "summary file")
	replayDir := fs.String("replaydir", "", "replay dir")
	fs.Parse(args)
	start := time.Now()
	recs, err := loadListRecs(*in)
	if err != nil || len(recs) == 0 {
		fmt.Fprintln(os.Stderr, "views: cannot load records:", err)
		return 2
	}
	st := newDocStats()
	report := func(r *listRec, variant string, err error) {
		b, _ := json.Marshal(r)
		msg := fmt.Sprintf("%s on %s (%s)", err, string(b[:min(len(b), 300)]), variant)
		sig := err.Error()
		if len(sig) > 80 {
			sig = sig[:80]
		}
		st.fail(&docViolation{Property: *prop, Message: msg, Sig: *family + ": " + sig, Check: "views:" + *family, Input: string(b), Text: variant, Seed: *seed})
	}
	parallel(len(recs), *workers, func(i int) {
		if st.nviol() > 0 {
			return
		}
		r := recs[i]
		b, _ := json.Marshal(r.List)
		st.seen(*family + string(b) + fmt.Sprint(r.Obj))
		if i%499 == 0 {
			st.sample(string(b))
		}
		if variant, err := runViewsRecord(*family, r, *seed, &st.evals); err != nil {
			report(r, variant, err)
		}
	})
	fixed := 0
	if *family == "agg" && st.nviol() == 0 {
		n, err := aggFixed()
		fixed = n
		st.evals += int64(n)
		if err != nil {
			sig := err.Error()
			if len(sig) > 80 {
				sig = sig[:80]
			}
			st.fail(&docViolation{Property: *prop, Message: err.Error(), Sig: "agg-fixed: " + sig, Check: "views:agg-fixed", Input: "fixed lists (overflowing products, very long lists)", Seed: *seed})
		}
	}
	return finishDocs(*prop, st, *out, *replayDir, map[string]any{"tlc_records": len(recs), "family": *family, "fixed_lists": fixed, "wall_s": time.Since(start).Seconds()})
}

// aggFixed: lists the enumeration cannot hold. (1) Products that overflow float64 although every element is finite: the
// sign of the infinity is the sign of the product whatever the fold order. (2) Lists of 2^14+3 … 2^18+1 elements (ints with
// other kinds interleaved) against plain loops, many times over (an implementation that splits the work must still add up).
func aggFixed() (int, error) {
	n := 0
	for _, c := range []struct {
		vals []any
		want float64
	}{
		{[]any{1e200, 1e200, -2.0}, math.Inf(-1)}, {[]any{1e200, 1e200, -1.0, -1.0}, math.Inf(1)}, {[]any{-1e200, 1e200, 1e200}, math.Inf(-1)},
		{[]any{math.MaxInt, math.MaxInt, math.MaxInt, math.MaxInt, math.MaxInt, math.MaxInt, math.MaxInt, math.MaxInt, math.MaxInt, math.MaxInt, math.MaxInt, math.MaxInt,
			math.MaxInt, math.MaxInt, math.MaxInt, math.MaxInt, math.MaxInt, -1}, math.Inf(-1)},
		{[]any{1e308, 10.0, 10.0, -3, -5.0}, math.Inf(1)}, {[]any{2.0, 1e308, 1e308, -1}, math.Inf(-1)},
	} {
		n++
		if got := at.NewList(c.vals...).Prod(); got != c.want {
			return n, fmt.Errorf("Prod of %v = %v, the product of the elements is %v", c.vals, got, c.want)
		}
	}
	// extrema of lists whose every element lies beyond the int range / near the ends of the float range
	for _, c := range []struct {
		vals     []any
		min, max float64
	}{
		{[]any{1e19, 3e25}, 1e19, 3e25}, {[]any{-1e19, -3e25}, -3e25, -1e19}, {[]any{1e300}, 1e300, 1e300}, {[]any{-1e300, -2e300}, -2e300, -1e300},
		{[]any{math.MaxFloat64, 1e308}, 1e308, math.MaxFloat64}, {[]any{-math.MaxFloat64}, -math.MaxFloat64, -math.MaxFloat64},
		{[]any{9.3e18, math.MaxInt}, float64(math.MaxInt), 9.3e18}, {[]any{-9.3e18, math.MinInt}, -9.3e18, float64(math.MinInt)},
		{[]any{5e-324, 1e-320}, 5e-324, 1e-320}, {[]any{-5e-324}, -5e-324, -5e-324},
	} {
		n++
		l := at.NewList(c.vals...)
		if got := l.Min(); got != c.min {
			return n, fmt.Errorf("Min of %v = %v, the minimum is %v", c.vals, got, c.min)
		}
		if got := l.Max(); got != c.max {
			return n, fmt.Errorf("Max of %v = %v, the maximum is %v", c.vals, got, c.max)
		}
	}
	for _, size := range []int{1<<14 + 3, 1<<16 + 1, 1<<18 + 1} {
		l := at.NewList()
		sum, prod, mn, mx, seen := 0, 1, 0, 0, false
		fsum := 0.0
		nums := at.NewList()
		for i := 0; i < size; i++ {
			v := (i*7919)%201 - 100
			l.Add(v)
			nums.Add(v % 3)
			fsum += float64(v % 3)
			sum += v
			if v%50 == 1 || v == -1 {
				prod *= v
			}
			if !seen || v < mn {
				mn = v
			}
			if !seen || v > mx {
				mx = v
			}
			seen = true
			switch i % 5 {
			case 1:
				l.Add("x")
			case 3:
				l.Add(2.5, nil)
			}
		}
		reps := 300
		if size > 1<<17 {
			reps = 120
		}
		for r := 0; r < reps; r++ {
			n++
			if got := l.IntSum(); got != sum {
				return n, fmt.Errorf("IntSum of a list with %d ints (other kinds interleaved) = %d, the sum is %d (call %d of %d on the same unchanged list)", size, got, sum, r+1, reps)
			}
			if r%10 == 0 {
				if got := l.IntMin(); got != mn {
					return n, fmt.Errorf("IntMin of a list with %d ints = %d, want %d", size, got, mn)
				}
				if got := l.IntMax(); got != mx {
					return n, fmt.Errorf("IntMax of a list with %d ints = %d, want %d", size, got, mx)
				}
				if got := nums.Sum(); got != fsum {
					return n, fmt.Errorf("Sum of %d small ints = %v, want %v", size, got, fsum)
				}
			}
		}
		// IntProd: mostly ones, a few other factors (wrap-around arithmetic is the same in any order)
		pl := at.NewList()
		want := 1
		for i := 0; i < size; i++ {
			f := 1
			if i%997 == 0 {
				f = 3
			} else if i%4099 == 0 {
				f = -1
			}
			pl.Add(f)
			want *= f
		}
		for r := 0; r < 40; r++ {
			n++
			if got := pl.IntProd(); got != want {
				return n, fmt.Errorf("IntProd of a list with %d ints = %d, the product is %d (call %d)", size, got, want, r+1)
			}
		}
		_ = prod
	}
	return n, nil
}

func min(a, b int) int {
	if a < b {
		return a
	}
	return b
}

func init() {
	extraCmds["views"] = cmdViews
}

// ---- viewtrace: the view / sort / aggregate methods on LARGE lists, recorded for spec/ViewsTrace.tla ----------

func (c *vconc) abs(x any) vtok {
	switch v := x.(type) {
	case nil:
		return vtok{"nil", 0}
	case bool:
		if v {
			return vtok{"bool", 1}
		}
		return vtok{"bool", 0}
	case int:
		switch c.mode {
		case "big53":
			return vtok{"int", v - (1 << 53)}
		case "x256":
			if v%256 == 0 {
				return vtok{"int", v / 256}
			}
			return vtok{"int", 1 << 40} // not an image of any token: TLC will reject it
		case "x4096":
			if v%4096 == 0 {
				return vtok{"int", v / 4096}
			}
			return vtok{"int", 1 << 40}
		case "x2p32":
			if v%(1<<32) == 0 {
				return vtok{"int", v >> 32}
			}
			return vtok{"int", 1 << 40}
		}
		for k, e := range c.intExt {
			if e == v {
				return vtok{"int", k}
			}
		}
		return vtok{"int", v}
	case float64:
		for k, e := range c.fltExt {
			if e == v {
				return vtok{"float", k}
			}
		}
		return vtok{"float", int(v * 4)}
	case string:
		for i, s := range c.strs {
			if s == v {
				return vtok{"str", i}
			}
		}
		return vtok{"str", -1}
	case at.Object:
		for k, o := range c.objs {
			if o == v {
				return vtok{"O", k}
			}
		}
		return vtok{"O", -1}
	case at.List:
		for k, l := range c.lists {
			if l == v {
				return vtok{"L", k}
			}
		}
		return vtok{"L", -1}
	}
	return vtok{"alien", 0}
}

func (c *vconc) absAll(xs []any) []vtok {
	out := make([]vtok, len(xs))
	for i, x := range xs {
		out[i] = c.abs(x)
	}
	return out
}

func eqAny(a, b []any) bool {
	if len(a) != len(b) {
		return false
	}
	for i := range a {
		if !sameVal(a[i], b[i]) {
			return false
		}
	}
	return true
}

// viewEvent runs the real methods on one list and returns the abstracted record.
func viewEvent(toks []vtok, sortMode string) (rec map[string]any, note string) {
	c := newVconc("id", 0)
	vals := make([]any, len(toks))
	for i, t := range toks {
		vals[i] = c.val(t)
	}
	l := at.NewList(vals...)
	selv := map[string][]vtok{}
	// typed slices are the reference; every other typed variant must agree with them
	slices := map[string][]any{"O": toAnySlice(l.ObjectSlice()), "L": toAnySlice(l.ListSlice()), "str": toAnySlice(l.StringSlice()),
		"bool": toAnySlice(l.BoolSlice()), "int": toAnySlice(l.IntSlice()), "float": toAnySlice(l.FloatSlice())}
	variant := func(kind, name string, got []any) {
		if !eqAny(got, slices[kind]) {
			slices[kind] = got // TLC will reject it
			note += fmt.Sprintf("%s disagrees with the %s slice; ", name, kind)
		}
	}
	var log []any
	rec1 := func(v any) { log = append(log, v) }
	log = nil
	l.ForEachObject(func(x at.Object) { rec1(x) })
	variant("O", "ForEachObject", log)
	log = nil
	l.ForEachList(func(x at.List) { rec1(x) })
	variant("L", "ForEachList", log)
	log = nil
	l.ForEachString(func(x string) { rec1(x) })
	variant("str", "ForEachString", log)
	log = nil
	l.ForEachBool(func(x bool) { rec1(x) })
	variant("bool", "ForEachBool", log)
	log = nil
	l.ForEachInt(func(x int) { rec1(x) })
	variant("int", "ForEachInt", log)
	log = nil
	l.ForEachFloat(func(x float64) { rec1(x) })
	variant("float", "ForEachFloat", log)
	yes := func() bool { return true }
	variant("O", "FilterObjects", listContent(l.FilterObjects(func(at.Object) bool { return yes() })))
	variant("L", "FilterLists", listContent(l.FilterLists(func(at.List) bool { return yes() })))
	variant("str", "FilterStrings", listContent(l.FilterStrings(func(string) bool { return yes() })))
	variant("int", "FilterInts", listContent(l.FilterInts(func(int) bool { return yes() })))
	variant("float", "FilterFloats", listContent(l.FilterFloats(func(float64) bool { return yes() })))
	// predicates with a memory (keep every other call): every selected element is handed over exactly once, in order
	calls := 0
	odd := func() bool { calls++; return calls%2 == 1 }
	oddOf := func(xs []any) []any {
		var out []any
		for i, x := range xs {
			if i%2 == 0 {
				out = append(out, x)
			}
		}
		return out
	}
	stateful := func(kind, name string, run func() []any) {
		calls = 0
		got := run()
		if calls != len(slices[kind]) || !eqAny(got, oddOf(slices[kind])) {
			slices[kind] = append([]any{"corrupt"}, got...) // TLC will reject it
			note += fmt.Sprintf("%s with a predicate that keeps every other call: %d calls for %d elements, or a wrong selection; ", name, calls, len(slices[kind])-1)
		}
	}
	stateful("O", "FilterObjects", func() []any { return listContent(l.FilterObjects(func(at.Object) bool { return odd() })) })
	stateful("L", "FilterLists", func() []any { return listContent(l.FilterLists(func(at.List) bool { return odd() })) })
	stateful("str", "FilterStrings", func() []any { return listContent(l.FilterStrings(func(string) bool { return odd() })) })
	stateful("int", "FilterInts", func() []any { return listContent(l.FilterInts(func(int) bool { return odd() })) })
	stateful("float", "FilterFloats", func() []any { return listContent(l.FilterFloats(func(float64) bool { return odd() })) })
	variant("O", "MapObjects", listContent(l.MapObjects(func(x at.Object) any { return x })))
	variant("L", "MapLists", listContent(l.MapLists(func(x at.List) any { return x })))
	variant("str", "MapStrings", listContent(l.MapStrings(func(x string) any { return x })))
	variant("bool", "MapBools", listContent(l.MapBools(func(x bool) any { return x })))
	variant("int", "MapInts", listContent(l.MapInts(func(x int) any { return x })))
	variant("float", "MapFloats", listContent(l.MapFloats(func(x float64) any { return x })))
	variant("int", "ReduceInts", l.Reduce([]any{}, func(a, b any) any {
		if _, ok := b.(int); ok {
			return append(a.([]any), b)
		}
		return a
	}).([]any))
	for k, v := range slices {
		selv[k] = c.absAll(v)
	}
	// untyped variants must reproduce the whole list
	whole := vals
	for name, got := range map[string][]any{"Filter": listContent(l.Filter(func(any) bool { return true })), "Map": listContent(l.Map(func(_ int, v any) any { return v })),
		"MapValues": listContent(l.MapValues(func(v any) any { return v })), "Slice": l.Slice(),
		"Reduce": l.Reduce([]any{}, func(a, b any) any { return append(a.([]any), b) }).([]any)} {
		if !eqAny(got, whole) {
			whole = got
			note += name + " does not reproduce the list; "
		}
	}
	calls = 0
	if got := listContent(l.Filter(func(any) bool { return odd() })); calls != len(vals) || !eqAny(got, oddOf(vals)) {
		whole = nil
		note += fmt.Sprintf("Filter with a predicate that keeps every other call: %d calls for %d elements, or a wrong selection; ", calls, len(vals))
	}
	var idx []int
	l.ForEach(func(i int, _ any) { idx = append(idx, i) })
	for i, x := range idx {
		if x != i {
			note += "ForEach index sequence is wrong; "
			whole = nil
			break
		}
	}
	if len(idx) != len(vals) {
		note += "ForEach call count is wrong; "
		whole = nil
	}
	all := []string{}
	for k, b := range map[string]bool{"O": l.AllObjects(), "L": l.AllLists(), "str": l.AllStrings(), "bool": l.AllBools(), "int": l.AllInts(), "float": l.AllFloats()} {
		if b {
			all = append(all, k)
		}
	}
	agg := map[string]any{"isum": l.IntSum(), "imin": l.IntMin(), "imax": l.IntMax(), "sum4": 0, "min4": 0, "max4": 0}
	if l.AllNumeric() {
		// AllNumeric says the float aggregates are defined: a panic of theirs is the library contradicting itself
		if p := func() (p any) {
			defer func() { p = recover() }()
			agg["sum4"] = int(l.Sum() * 4)
			agg["min4"] = int(l.Min() * 4)
			agg["max4"] = int(l.Max() * 4)
			if l.Sum()*4 != float64(int(l.Sum()*4)) {
				agg["sum4"] = -999999
			}
			if n := l.Count(); n > 0 && l.Avg() != l.Sum()/float64(n) {
				agg["sum4"] = -999998
			}
			return nil
		}(); p != nil {
			note += fmt.Sprintf("AllNumeric() is true but a float aggregate panicked (%v); ", p)
			agg["sum4"] = -999997
			all = append(all, "numeric-but-aggregates-panic")
		}
	}
	if !eqAny(listContent(l), vals) {
		note += "the read-only calls changed the list; "
	}
	// Reverse / Sort on a second list under the order-only concretisation
	cs := newVconc(sortMode, 0)
	svals := make([]any, len(toks))
	for i, t := range toks {
		svals[i] = cs.val(t)
	}
	ls := at.NewList(svals...)
	ls.Reverse()
	rev := cs.absAll(listContent(ls))
	ls.Reverse()
	if !eqAny(listContent(ls), svals) {
		note += "Reverse twice does not restore the list; "
		rev = nil
	}
	sortDomain := len(toks) > 0
	for _, t := range toks {
		if t.K != toks[0].K || (t.K != "int" && t.K != "float" && t.K != "str") {
			sortDomain = false
		}
	}
	var sorted []vtok
	if sortDomain {
		ls.Sort()
		first := cs.absAll(listContent(ls))
		ls.Sort()
		if !eqAny(cs2any(first), cs2any(cs.absAll(listContent(ls)))) {
			note += "Sort twice differs from Sort once; "
		}
		sorted = first
	} else {
		sorted = []vtok{}
	}
	if whole == nil {
		selv["int"] = []vtok{{"alien", 0}}
	} else if !eqAny(whole, vals) {
		selv["int"] = []vtok{{"alien", 1}}
	}
	selJSON := map[string][][2]any{}
	for k, v := range selv {
		out := make([][2]any, len(v))
		for i, t := range v {
			out[i] = [2]any{t.K, t.V}
		}
		selJSON[k] = out
	}
	return map[string]any{"list": toks, "selv": selJSON, "all": all, "allNumeric": l.AllNumeric(), "rev": rev, "sortDomain": sortDomain, "sorted": sorted, "agg": agg, "note": note}, note
}

func cs2any(ts []vtok) []any {
	out := make([]any, len(ts))
	for i, t := range ts {
		out[i] = t.K + ":" + fmt.Sprint(t.V)
	}
	return out
}

func cmdViewTrace(args []string) int {
	fs := flag.NewFlagSet("viewtrace", flag.ExitOnError)
	out := fs.String("trace", "", "ndjson trace")
	seed := fs.Int64("seed", 1, "seed")
	big := fs.Bool("big", false, "also sizes up to 4097")
	family := fs.String("family", "views", "views|sort|agg: which list shapes are recorded")
	fs.Parse(args)
	f, err := os.Create(*out)
	if err != nil {
		fmt.Fprintln(os.Stderr, err)
		return 2
	}
	w := bufio.NewWriterSize(f, 1<<20)
	rng := newRand(*seed)
	sizes := []int{0, 1, 2, 11, 12, 13, 14, 15, 16, 17, 31, 32, 33, 38, 46, 54, 63, 64, 65, 66, 100, 127, 128, 129, 130, 131, 200, 255, 256, 257, 259, 300, 513, 1025}
	if *big {
		sizes = append(sizes, 1023, 1024, 2047, 2048, 2049, 2050, 2051, 2055, 4096, 4097, 4103)
	}
	mixed := []vtok{{"nil", 0}, {"bool", 1}, {"int", 1}, {"int", 2}, {"float", 2}, {"str", 1}, {"O", 1}, {"O", 2}, {"L", 1}}
	ints := []vtok{{"int", -2}, {"int", -1}, {"int", 0}, {"int", 1}, {"int", 2}, {"int", 3}}
	flts := []vtok{{"float", -6}, {"float", -1}, {"float", 0}, {"float", 2}, {"float", 5}}
	strs := []vtok{{"str", 0}, {"str", 1}, {"str", 2}, {"str", 3}, {"str", 4}, {"str", 5}, {"str", 6}} // "" A a ab b ž 😀 (bytewise order)
	nums := append(append([]vtok{}, ints...), flts...)
	pick := func(alpha []vtok, n int) []vtok {
		out := make([]vtok, n)
		for i := range out {
			out[i] = alpha[rng.Intn(len(alpha))]
		}
		return out
	}
	events, notes := 0, 0
	emit := func(toks []vtok, mode string) {
		rec, note := viewEvent(toks, mode)
		if note != "" {
			notes++
		}
		b, _ := json.Marshal(rec)
		w.Write(b)
		w.WriteByte('\n')
		events++
	}
	// a few very long lists in every tier (thresholds of block-wise / parallel implementations): kept few because TLC's
	// cost per recorded list grows faster than its length
	switch *family {
	case "views":
		for _, n := range []int{4099, 4102} {
			for _, k := range []vtok{{"O", 1}, {"str", 2}, {"float", 2}} {
				one := pick([]vtok{{"int", 1}, {"int", 2}}, n)
				one[n-1-rng.Intn(3)] = k
				emit(one, "id")
			}
		}
	case "sort":
		for _, n := range []int{2051, 4100} {
			emit(pick(ints, n), "id")
			emit(pick(strs, n), "id")
		}
	}
	for _, n := range sizes {
		switch *family {
		case "views":
			emit(pick(mixed, n), "id")
			emit(pick(mixed, n), "id")
			if n >= 2 {
				tail := pick([]vtok{{"str", 1}, {"nil", 0}, {"bool", 0}}, n)
				tail[n-1] = vtok{"int", 3}
				emit(tail, "id")
				for _, k := range []vtok{{"O", 1}, {"L", 1}, {"float", 2}, {"str", 2}} {
					one := pick([]vtok{{"int", 1}, {"nil", 0}}, n)
					one[n-1] = k
					one[n/2] = k
					emit(one, "id")
				}
			}
			continue
		case "agg":
			emit(pick(nums, n), "id")
			emit(pick(ints, n), "extremeAgg")
			emit(pick(flts, n), "id")
			if n >= 2 {
				mid := pick(ints, n)
				mid[n/2] = vtok{"float", 5}
				emit(mid, "id")
				ones := make([]vtok, n)
				for i := range ones {
					ones[i] = vtok{"int", 1}
				}
				emit(ones, "id")
				tail := pick([]vtok{{"str", 1}, {"nil", 0}, {"bool", 0}}, n)
				tail[n-1] = vtok{"int", 3}
				emit(tail, "id")
			}
			continue
		}
		emit(pick(ints, n), "extremeAgg")
		emit(pick(ints, n), "big53")
		emit(pick(flts, n), "id")
		emit(pick(strs, n), "id")
		if n >= 200 {
			emit(pick(ints, n), []string{"x256", "x4096", "x2p32"}[n%3])
			emit(pick([]vtok{{"int", -2}, {"int", 0}}, n), "extremeAgg") // MinInt and 0 only
		}
		if n >= 2 {
			// ascending run with a small last element; descending run with a big last element; all equal but the last
			asc := make([]vtok, n)
			for i := range asc {
				asc[i] = vtok{"int", -2 + (i*5)/n}
			}
			asc[n-1] = vtok{"int", -2}
			emit(asc, "id")
			emit(asc, "big53")
			desc := make([]vtok, n)
			for i := range desc {
				desc[i] = vtok{"int", 3 - (i*5)/n}
			}
			desc[n-1] = vtok{"int", 3}
			emit(desc, "id")
			eq := make([]vtok, n)
			for i := range eq {
				eq[i] = vtok{"float", 2}
			}
			eq[n-1] = vtok{"float", -6}
			emit(eq, "id")
		}
	}
	w.Flush()
	f.Close()
	fmt.Printf("{\"events\":%d,\"harness_notes\":%d,\"max_size\":%d}\n", events, notes, sizes[len(sizes)-1])
	return 0
}

func init() {
	extraCmds["viewtrace"] = cmdViewTrace
}
