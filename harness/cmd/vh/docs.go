package main

import (
	"bufio"
	"encoding/json"
	"flag"
	"fmt"
	"math"
	"math/rand"
	"os"
	"path/filepath"
	"sort"
	"strings"
	"sync"
	"sync/atomic"
	"time"
	"unicode/utf8"

	at "github.com/DanielSvub/anytype"

	"verif/harness/heapx"
	"verif/harness/jsonx"
)

// docs: documents enumerated by TLC from spec/JsonText.tla, concretised and checked on the real
// serialiser / parser (C01 C02 C16: serialise direction; C03 C04 C20: see parse.go).

type docRec struct {
	Toks   [][2]string       `json:"toks"`
	Tree   *jsonx.ATree      `json:"tree"`
	Layout []json.RawMessage `json:"layout"`
	Nodes  int               `json:"nodes"`
}

func loadDocs(path string) ([]*docRec, error) {
	f, err := os.Open(path)
	if err != nil {
		return nil, err
	}
	defer f.Close()
	var out []*docRec
	rd := bufio.NewReaderSize(f, 1<<20)
	for {
		line, err := rd.ReadString('\n')
		if strings.HasPrefix(line, `"{`) {
			var inner string
			if e := json.Unmarshal([]byte(strings.TrimRight(line, "\r\n")), &inner); e != nil {
				return nil, e
			}
			var d docRec
			if e := json.Unmarshal([]byte(inner), &d); e != nil {
				return nil, fmt.Errorf("bad document record: %v: %.200s", e, inner)
			}
			out = append(out, &d)
		}
		if err != nil {
			break
		}
	}
	return out, nil
}

func layoutToks(raw []json.RawMessage) ([]jsonx.LayoutTok, error) {
	out := make([]jsonx.LayoutTok, 0, len(raw))
	for _, r := range raw {
		var parts []json.RawMessage
		if err := json.Unmarshal(r, &parts); err != nil || len(parts) != 3 {
			return nil, fmt.Errorf("bad layout token %s", r)
		}
		var t jsonx.LayoutTok
		json.Unmarshal(parts[0], &t.Kind)
		if t.Kind == "nl" {
			json.Unmarshal(parts[2], &t.Level)
		} else {
			json.Unmarshal(parts[1], &t.A)
		}
		out = append(out, t)
	}
	return out, nil
}

type docViolation struct {
	Property string       `json:"property"`
	Message  string       `json:"message"`
	Sig      string       `json:"sig"`
	Check    string       `json:"check"`
	Input    string       `json:"input"`
	Text     string       `json:"text,omitempty"`
	Seed     int64        `json:"seed"`
	Replay   string       `json:"replay,omitempty"`
	Tree     *jsonx.CTree `json:"tree,omitempty"`
	How      int          `json:"how"`
	Rec      *errRec      `json:"rec,omitempty"`
	Index    int          `json:"index"`
}

type docStats struct {
	mu        sync.Mutex
	evals     int64
	distinct  map[uint64]struct{}
	viol      []*docViolation
	samples   []string
	classSeen map[string]int
}

func newDocStats() *docStats {
	return &docStats{distinct: map[uint64]struct{}{}, classSeen: map[string]int{}}
}

func (s *docStats) seen(key string) {
	s.mu.Lock()
	s.distinct[fnv(key)] = struct{}{}
	s.mu.Unlock()
}

func (s *docStats) fail(v *docViolation) {
	s.mu.Lock()
	if len(s.viol) < 25 {
		s.viol = append(s.viol, v)
	}
	s.mu.Unlock()
}

func (s *docStats) nviol() int {
	s.mu.Lock()
	defer s.mu.Unlock()
	return len(s.viol)
}

func (s *docStats) sample(x string) {
	s.mu.Lock()
	if len(s.samples) < 6 {
		s.samples = append(s.samples, x)
	}
	s.mu.Unlock()
}

func guard(f func() error) (err error) {
	defer func() {
		if e := recover(); e != nil {
			err = fmt.Errorf("panic: %v", e)
		}
	}()
	return f()
}

func rootKind(c *jsonx.CTree) byte { return c.Kind }

// buildC: builders 0..3 are jsonx.Build's; builder 4 makes every NESTED container a user-derived struct (a type that embeds
// List / Object and registers itself with Init, as in the library's README): to the serialiser it is a List / Object like
// any other.
func buildC(ct *jsonx.CTree, how int) any {
	if how != 4 {
		return jsonx.Build(ct, how)
	}
	c := jsonx.Build(ct, 2)
	deriveChildren(c)
	return c
}

func deriveChildren(x any) {
	wrap := func(child any) any {
		deriveChildren(child)
		switch v := child.(type) {
		case at.List:
			d := &heapx.DL{List: v}
			d.Init(d)
			return d
		case at.Object:
			d := &heapx.DO{Object: v}
			d.Init(d)
			return d
		}
		return child
	}
	switch v := x.(type) {
	case at.List:
		for i := 0; i < v.Count(); i++ {
			switch v.TypeOf(i) {
			case at.TypeList, at.TypeObject:
				v.Replace(i, wrap(v.Get(i)))
			}
		}
	case at.Object:
		for _, k := range v.Keys().StringSlice() {
			switch v.TypeOf(k) {
			case at.TypeList, at.TypeObject:
				v.Set(k, wrap(v.Get(k)))
			}
		}
	}
}

// ---- the three serialise-direction checks ----------------------------------------------------

// C01: ParseX(String()) returns no error and an equal container; kinds preserved; twice stable.
func checkRoundTrip(ct *jsonx.CTree, how int) (string, error) {
	var text string
	err := guard(func() error {
		c := jsonx.Build(ct, how%4)
		text = jsonx.Str(c)
		p, err := jsonx.Parse(rootKind(ct), text)
		if err != nil {
			return fmt.Errorf("parsing the serialised container failed: %v", err)
		}
		if !jsonx.Equals(p, c) || !jsonx.Equals(c, p) {
			return fmt.Errorf("re-parsed container does not Equal the original (re-serialised: %s)", jsonx.Str(p))
		}
		pt, err := jsonx.Project(p)
		if err != nil {
			return fmt.Errorf("re-parsed container cannot be read: %v", err)
		}
		if err := jsonx.EqualTree(ct, pt, "$"); err != nil {
			return fmt.Errorf("re-parsed content differs from what was stored: %v", err)
		}
		text2 := jsonx.Str(p)
		p2, err := jsonx.Parse(rootKind(ct), text2)
		if err != nil {
			return fmt.Errorf("second round trip failed to parse %s: %v", text2, err)
		}
		if !jsonx.Equals(p2, p) || !jsonx.Equals(p2, c) {
			return fmt.Errorf("second round trip is not equal (%s)", jsonx.Str(p2))
		}
		p2t, err := jsonx.Project(p2)
		if err == nil {
			err = jsonx.EqualTree(ct, p2t, "$")
		}
		if err != nil {
			return fmt.Errorf("second round trip differs: %v", err)
		}
		// serialise, change a nested container through its own handle, serialise again
		if child := firstChild(c); child != nil {
			mutateChild(child)
			want, err := jsonx.Project(c)
			if err != nil {
				return fmt.Errorf("container cannot be read after a nested change: %v", err)
			}
			text3 := jsonx.Str(c)
			p3, err := jsonx.Parse(rootKind(ct), text3)
			if err != nil {
				return fmt.Errorf("parsing String() after a nested change failed: %v (%s)", err, text3)
			}
			got, err := jsonx.Project(p3)
			if err == nil {
				err = jsonx.EqualTree(want, got, "$")
			}
			if err != nil || !jsonx.Equals(p3, c) {
				return fmt.Errorf("String() after a change made through a nested container's handle does not round-trip to the container (%s): %v", text3, err)
			}
		}
		return afterDerivations(c, func(x any, what string) error {
			if err := verifyText(x, what); err != nil {
				return err
			}
			p, err := jsonx.Parse(rootKind(ct), jsonx.Str(x))
			if err != nil || !jsonx.Equals(p, x) {
				return fmt.Errorf("String() of %s does not parse back to an equal container: %v", what, err)
			}
			return nil
		})
	})
	return text, err
}

// C02: String() is valid RFC 8259 and two independent decoders read the same data.
func checkStdJSON(ct *jsonx.CTree, how int) (string, error) {
	var text string
	err := guard(func() error {
		c := buildC(ct, how)
		text = jsonx.Str(c)
		if !utf8.ValidString(text) {
			return fmt.Errorf("String() is not valid UTF-8")
		}
		if !json.Valid([]byte(text)) {
			return fmt.Errorf("encoding/json: String() is not valid JSON")
		}
		st, err := jsonx.StrictParse(text)
		if err != nil {
			return fmt.Errorf("strict RFC 8259 reader rejects String(): %v", err)
		}
		if err := jsonx.EqualTree(ct, st, "$"); err != nil {
			return fmt.Errorf("strict reader decodes different data: %v", err)
		}
		sd, err := jsonx.StdParse(text)
		if err != nil {
			return fmt.Errorf("encoding/json rejects String(): %v", err)
		}
		if err := jsonx.EqualTree(ct, sd, "$"); err != nil {
			return fmt.Errorf("encoding/json decodes different data: %v", err)
		}
		back, err := jsonx.Project(c)
		if err == nil {
			err = jsonx.EqualTree(ct, back, "$")
		}
		if err != nil {
			return fmt.Errorf("String() modified the container: %v", err)
		}
		if child := firstChild(c); child != nil {
			mutateChild(child)
			want, err := jsonx.Project(c)
			if err != nil {
				return fmt.Errorf("container cannot be read after a nested change: %v", err)
			}
			text3 := jsonx.Str(c)
			st3, err := jsonx.StrictParse(text3)
			if err == nil {
				err = jsonx.EqualTree(want, st3, "$")
			}
			if err != nil {
				return fmt.Errorf("String() after a change made through a nested container's handle does not denote the container's content (%s): %v", text3, err)
			}
		}
		return afterDerivations(c, verifyText)
	})
	return text, err
}

var badIndents = []int{math.MinInt, -65536, -257, -256, -255, -250, -246, -100, -2, -1, 11, 12, 100, 255, 256, 257, 260, 266, 512, 65536, 1 << 20, 1 << 32, math.MaxInt}

func sameRaw(a, b *jsonx.CTree, path string) error {
	if a.Kind != b.Kind || len(a.Elems) != len(b.Elems) {
		return fmt.Errorf("%s: shape differs", path)
	}
	switch a.Kind {
	case 'L':
		for i := range a.Elems {
			if err := sameRaw(a.Elems[i], b.Elems[i], fmt.Sprintf("%s[%d]", path, i)); err != nil {
				return err
			}
		}
	case 'O':
		idx := map[string]*jsonx.CTree{}
		for i, k := range b.Keys {
			idx[k] = b.Elems[i]
		}
		for i, k := range a.Keys {
			o, ok := idx[k]
			if !ok {
				return fmt.Errorf("%s: key %q missing", path, k)
			}
			if a.Elems[i].Kind != 'L' && a.Elems[i].Kind != 'O' && a.Elems[i].Raw != o.Raw {
				return fmt.Errorf("%s[%q]: text %q vs %q", path, k, a.Elems[i].Raw, o.Raw)
			}
			if err := sameRaw(a.Elems[i], o, fmt.Sprintf("%s[%q]", path, k)); err != nil {
				return err
			}
		}
	default:
		if a.Raw != b.Raw {
			return fmt.Errorf("%s: scalar text %q vs %q", path, a.Raw, b.Raw)
		}
	}
	return nil
}

// reorder puts the members of strict tree st into the key order of ct (TLC's member order).
func reorder(st, ct *jsonx.CTree) *jsonx.CTree {
	switch st.Kind {
	case 'L':
		out := &jsonx.CTree{Kind: 'L', Raw: st.Raw}
		for i, e := range st.Elems {
			if i < len(ct.Elems) {
				out.Elems = append(out.Elems, reorder(e, ct.Elems[i]))
			}
		}
		return out
	case 'O':
		out := &jsonx.CTree{Kind: 'O', Raw: st.Raw}
		idx := map[string]int{}
		for i, k := range st.Keys {
			idx[k] = i
		}
		for j, k := range ct.Keys {
			if i, ok := idx[k]; ok {
				out.Keys = append(out.Keys, k)
				out.Elems = append(out.Elems, reorder(st.Elems[i], ct.Elems[j]))
			}
		}
		return out
	}
	return st
}

// C16: FormatString(n) is a non-empty, lossless, canonically indented re-layout of String().
func checkFormat(ct *jsonx.CTree, how int, layout []jsonx.LayoutTok, full bool) (string, error) {
	var text string
	err := guard(func() error {
		c := buildC(ct, how)
		text = jsonx.Str(c)
		ss, err := jsonx.StrictParse(text)
		if err != nil {
			return fmt.Errorf("String() is not valid JSON (%v), so FormatString cannot be judged against it", err)
		}
		ns := []int{0, 1, 2, 4, 10}
		if full {
			ns = []int{0, 1, 2, 3, 4, 5, 6, 7, 8, 9, 10}
		}
		for _, n := range ns {
			f := jsonx.Format(c, n)
			if f == "" {
				return fmt.Errorf("FormatString(%d) is empty (String() = %s)", n, text)
			}
			fs, err := jsonx.StrictParse(f)
			if err != nil {
				return fmt.Errorf("FormatString(%d) is not valid JSON: %v: %q", n, err, f)
			}
			if err := jsonx.EqualTree(ct, fs, "$"); err != nil {
				return fmt.Errorf("FormatString(%d) denotes different data: %v", n, err)
			}
			if err := sameRaw(fs, ss, "$"); err != nil {
				return fmt.Errorf("FormatString(%d) is not a re-layout of String(): %v", n, err)
			}
			if want := jsonx.Render(fs, n); want != f {
				return fmt.Errorf("FormatString(%d) is not the canonical layout:\n got %q\nwant %q", n, f, want)
			}
			if layout != nil {
				// the Go renderer (oracle) must agree with TLC's Layout(tree) on this document
				ord := reorder(fs, ct)
				viaTLC, err := jsonx.RenderTLC(layout, jsonx.ScalarTexts(ord), n)
				if err != nil {
					return fmt.Errorf("ORACLE: TLC layout cannot be filled: %v", err)
				}
				if got := jsonx.Render(ord, n); got != viaTLC {
					return fmt.Errorf("ORACLE: Go renderer and TLC Layout disagree for n=%d:\n go  %q\n tlc %q", n, got, viaTLC)
				}
			}
		}
		for _, n := range badIndents {
			n := n
			panicked := false
			func() {
				defer func() {
					if recover() != nil {
						panicked = true
					}
				}()
				jsonx.Format(c, n)
			}()
			if !panicked {
				return fmt.Errorf("FormatString(%d) did not panic (indent outside 0..10)", n)
			}
		}
		back, err := jsonx.Project(c)
		if err == nil {
			err = jsonx.EqualTree(ct, back, "$")
		}
		if err != nil {
			return fmt.Errorf("FormatString modified the container: %v", err)
		}
		// a change made through a nested container's own handle must show in the next FormatString
		if child := firstChild(c); child != nil {
			for _, n := range []int{2, 2, 7} {
				jsonx.Format(c, n)
			}
			mutateChild(child)
			after := jsonx.Str(c)
			as, err := jsonx.StrictParse(after)
			if err != nil {
				return fmt.Errorf("String() after a nested change is not valid JSON: %v", err)
			}
			// first the very indent of the last call before the change, then others, then it again
			for _, n := range []int{7, 2, 2, 0, 7} {
				f := jsonx.Format(c, n)
				fs, err := jsonx.StrictParse(f)
				if err != nil {
					return fmt.Errorf("FormatString(%d) after a nested change is not valid JSON: %v: %q", n, err, f)
				}
				if err := sameRaw(fs, as, "$"); err != nil {
					return fmt.Errorf("FormatString(%d) after a change made through a nested container's handle is not a re-layout of String() (%s): %v", n, after, err)
				}
				if want := jsonx.Render(fs, n); want != f {
					return fmt.Errorf("FormatString(%d) after a nested change is not the canonical layout", n)
				}
			}
		}
		return afterDerivations(c, func(x any, what string) error {
			as, err := jsonx.StrictParse(jsonx.Str(x))
			if err != nil {
				return fmt.Errorf("String() of %s is not valid JSON: %v", what, err)
			}
			for _, n := range []int{2, 0} {
				f := jsonx.Format(x, n)
				fs, err := jsonx.StrictParse(f)
				if err == nil {
					err = sameRaw(fs, as, "$")
				}
				if err != nil {
					return fmt.Errorf("FormatString(%d) of %s is not a re-layout of its String(): %v: %q", n, what, err, f)
				}
				if want := jsonx.Render(fs, n); want != f {
					return fmt.Errorf("FormatString(%d) of %s is not the canonical layout", n, what)
				}
			}
			return nil
		})
	})
	return text, err
}

// walkContainers calls f for x and every container below it (children first).
func walkContainers(x any, f func(c any)) {
	switch v := x.(type) {
	case at.List:
		for i := 0; i < v.Count(); i++ {
			switch v.TypeOf(i) {
			case at.TypeList, at.TypeObject:
				walkContainers(v.Get(i), f)
			}
		}
		f(v)
	case at.Object:
		ks := v.Keys().StringSlice()
		sort.Strings(ks)
		for _, k := range ks {
			switch v.TypeOf(k) {
			case at.TypeList, at.TypeObject:
				walkContainers(v.Get(k), f)
			}
		}
		f(v)
	}
}

// reshape changes every container of a tree in place: objects lose their first and gain a new first and a new last key,
// lists lose their last element and gain a new first one.
func reshape(x any, tag string) {
	walkContainers(x, func(c any) {
		switch v := c.(type) {
		case at.List:
			if v.Count() > 0 {
				v.Pop()
			}
			v.Insert(0, "ins-"+tag)
		case at.Object:
			ks := v.Keys().StringSlice()
			sort.Strings(ks)
			if len(ks) > 0 {
				v.Unset(ks[0])
			}
			v.Set("\x01first-"+tag, 1, "\U0010FFFElast-"+tag, nil)
		}
	})
}

// afterDerivations: the text of a container depends on its current content only. Copies and derivations that are changed
// later must not show in the original's text, nor later changes of the original in theirs. verify(x, what) judges String()
// (or FormatString) of x against x's own content.
func afterDerivations(c any, verify func(x any, what string) error) error {
	derive := []struct {
		name string
		f    func() any
	}{
		{"Clone", func() any {
			switch v := c.(type) {
			case at.List:
				return v.Clone()
			case at.Object:
				return v.Clone()
			}
			return nil
		}},
		{"Merge/Concat with an empty container", func() any {
			switch v := c.(type) {
			case at.List:
				return v.Concat(at.NewList())
			case at.Object:
				return v.Merge(at.NewObject())
			}
			return nil
		}},
		{"SubList/Pluck of everything", func() any {
			switch v := c.(type) {
			case at.List:
				return v.SubList(0, 0)
			case at.Object:
				return v.Pluck(v.Keys().StringSlice()...)
			}
			return nil
		}},
	}
	for i, d := range derive {
		x := d.f()
		if x == nil {
			continue
		}
		// texts of both before any change (fills whatever the serialiser may keep)
		jsonx.Str(c)
		jsonx.Str(x)
		if i == 0 {
			reshape(x, "copy")
		} else {
			// shallow derivations share the nested containers: change the top level only
			switch v := x.(type) {
			case at.List:
				v.Insert(0, "ins-derived")
			case at.Object:
				ks := v.Keys().StringSlice()
				sort.Strings(ks)
				if len(ks) > 0 {
					v.Unset(ks[0])
				}
				v.Set("\x01first-derived", 1)
			}
		}
		if err := verify(c, "the original after its "+d.name+" was changed"); err != nil {
			return err
		}
		if err := verify(x, "a changed "+d.name); err != nil {
			return err
		}
	}
	// now the other way round: a deep copy is taken, the original changes
	var cl any
	switch v := c.(type) {
	case at.List:
		cl = v.Clone()
	case at.Object:
		cl = v.Clone()
	}
	jsonx.Str(cl)
	reshape(c, "orig")
	if err := verify(cl, "a Clone after the original was changed"); err != nil {
		return err
	}
	return verify(c, "the changed original")
}

// verifyText: String() of x denotes exactly x's current content (strict RFC 8259 reader, content read through Get/TypeOf).
func verifyText(x any, what string) error {
	want, err := jsonx.Project(x)
	if err != nil {
		return fmt.Errorf("%s cannot be read: %v", what, err)
	}
	text := jsonx.Str(x)
	got, err := jsonx.StrictParse(text)
	if err == nil {
		err = jsonx.EqualTree(want, got, "$")
	}
	if err != nil {
		return fmt.Errorf("String() of %s does not denote its content (%s): %v", what, text, err)
	}
	return nil
}

func firstChild(c any) any {
	switch v := c.(type) {
	case at.List:
		for i := 0; i < v.Count(); i++ {
			switch v.TypeOf(i) {
			case at.TypeList, at.TypeObject:
				return v.Get(i)
			}
		}
	case at.Object:
		ks := v.Keys().StringSlice()
		sort.Strings(ks)
		for _, k := range ks {
			switch v.TypeOf(k) {
			case at.TypeList, at.TypeObject:
				return v.Get(k)
			}
		}
	}
	return nil
}

func mutateChild(c any) {
	switch v := c.(type) {
	case at.List:
		v.Add("added-later", 12345)
	case at.Object:
		v.Set("added-later", 12345)
	}
}

func runSerCheck(check string, ct *jsonx.CTree, how int, layout []jsonx.LayoutTok, full bool) (string, error) {
	switch check {
	case "roundtrip":
		return checkRoundTrip(ct, how)
	case "stdjson":
		return checkStdJSON(ct, how)
	case "format":
		return checkFormat(ct, how, layout, full)
	}
	panic("unknown check " + check)
}

// sweepTrees: Go-side member sweeps that TLC cannot enumerate (every code point, float64 samples,
// deep random trees); the shapes come from a fixed small set.
func codePointTrees(r rune) []*jsonx.CTree {
	s := "x" + string(r) + "y"
	return []*jsonx.CTree{
		{Kind: 'L', Elems: []*jsonx.CTree{{Kind: 's', S: s}, {Kind: 's', S: string(r)}}},
		{Kind: 'O', Keys: []string{s, string(r)}, Elems: []*jsonx.CTree{{Kind: 's', S: string(r) + string(r)}, {Kind: 'L', Elems: []*jsonx.CTree{{Kind: 's', S: s}}}}},
	}
}

func randomTree(rng *rand.Rand, depth int) *jsonx.CTree {
	leaf := func() *jsonx.CTree {
		switch rng.Intn(6) {
		case 0:
			cls := jsonx.StrClassOrder[rng.Intn(len(jsonx.StrClassOrder))]
			return &jsonx.CTree{Kind: 's', S: jsonx.StrMember(cls, rng.Intn(100))}
		case 1:
			n := jsonx.RandNum("randInt", rng)
			return &jsonx.CTree{Kind: 'i', I: n.I}
		case 2:
			n := jsonx.RandNum("randFloat", rng)
			return &jsonx.CTree{Kind: 'f', F: n.F}
		case 3:
			return &jsonx.CTree{Kind: 'b', B: rng.Intn(2) == 0}
		case 4:
			cls := jsonx.NumClassOrder[rng.Intn(len(jsonx.NumClassOrder))]
			n := jsonx.NumMember(cls, rng.Intn(100), rng)
			if n.IsFloat {
				return &jsonx.CTree{Kind: 'f', F: n.F}
			}
			return &jsonx.CTree{Kind: 'i', I: n.I}
		}
		return &jsonx.CTree{Kind: 'z'}
	}
	var gen func(d int, mustContainer bool) *jsonx.CTree
	gen = func(d int, mustContainer bool) *jsonx.CTree {
		if !mustContainer && (d == 0 || rng.Intn(3) == 0) {
			return leaf()
		}
		n := rng.Intn(5)
		if rng.Intn(2) == 0 {
			c := &jsonx.CTree{Kind: 'L'}
			for i := 0; i < n; i++ {
				c.Elems = append(c.Elems, gen(d-1, false))
			}
			return c
		}
		c := &jsonx.CTree{Kind: 'O'}
		used := map[string]bool{}
		for i := 0; i < n; i++ {
			cls := jsonx.StrClassOrder[rng.Intn(len(jsonx.StrClassOrder))]
			k := jsonx.StrMember(cls, rng.Intn(100))
			if used[k] {
				continue
			}
			used[k] = true
			c.Keys = append(c.Keys, k)
			c.Elems = append(c.Elems, gen(d-1, false))
		}
		return c
	}
	return gen(depth, true)
}

func cmdSer(args []string) int {
	fs := flag.NewFlagSet("ser", flag.ExitOnError)
	in := fs.String("in", "", "TLC output with document records")
	prop := fs.String("prop", "", "property id")
	check := fs.String("check", "roundtrip", "roundtrip|stdjson|format")
	seed := fs.Int64("seed", 1, "seed")
	picks := fs.Int("picks", 2, "concretisations per abstract document")
	cps := fs.String("codepoints", "sample", "all|sample|none: code point sweep")
	floats := fs.Int("floats", 20000, "random float64 / int values")
	deep := fs.Int("deep", 300, "random deep trees")
	workers := fs.Int("workers", 16, "goroutines")
	out := fs.String("out", "", "summary file")
	replayDir := fs.String("replaydir", "", "replay dir")
	fs.Parse(args)
	start := time.Now()
	docs, err := loadDocs(*in)
	if err != nil || len(docs) == 0 {
		fmt.Fprintln(os.Stderr, "ser: cannot load documents:", err)
		return 2
	}
	st := newDocStats()
	full := *check == "format"
	reportT := func(ct *jsonx.CTree, how int, input, text string, err error, seedUsed int64) {
		msg := err.Error()
		sig := msg
		if len(sig) > 120 {
			sig = sig[:120]
		}
		st.fail(&docViolation{Property: *prop, Message: msg, Sig: *check + ": " + sig, Check: *check, Input: input, Text: text, Seed: seedUsed, Tree: ct, How: how})
	}
	report := func(input, text string, err error, seedUsed int64) { reportT(nil, 0, input, text, err, seedUsed) }
	// phase 1: TLC documents x picks
	parallel(len(docs), *workers, func(i int) {
		if st.nviol() > 0 {
			return
		}
		d := docs[i]
		lay, lerr := layoutToks(d.Layout)
		if lerr != nil {
			report("layout", "", lerr, 0)
			return
		}
		for k := 0; k < *picks; k++ {
			p := jsonx.NewPicker(*seed*7919+int64(i)*31+int64(k), int(*seed)+i+k*13)
			ct := jsonx.Concretise(d.Tree, p)
			how := (i + k) % 5
			var l []jsonx.LayoutTok
			if *check == "format" {
				l = lay
			}
			text, err := runSerCheck(*check, ct, how, l, full && k == 0)
			atomic.AddInt64(&st.evals, 1)
			st.seen(ct.String())
			if i%997 == 0 && k == 0 {
				st.sample(ct.String() + "  =>  " + text)
			}
			if err != nil {
				reportT(ct, how, ct.String(), text, err, *seed)
				return
			}
		}
	})
	tlcDocs := len(docs)
	// phase 2: every code point as value and as key
	cpCount := 0
	if *cps != "none" && st.nviol() == 0 {
		var runes []rune
		rng := rand.New(rand.NewSource(*seed))
		for r := rune(0); r <= 0x10ffff; r++ {
			if r >= 0xd800 && r <= 0xdfff {
				continue
			}
			if *cps == "all" || r < 0x800 || (r >= 0x2000 && r < 0x2100) || (r >= 0xfff0 && r <= 0x1000f) || r >= 0x10fff0 || (r >= 0xe0000 && r < 0xe0080) || rng.Intn(50) == 0 {
				runes = append(runes, r)
			}
		}
		cpCount = len(runes)
		parallel(len(runes), *workers, func(i int) {
			if st.nviol() > 0 {
				return
			}
			for j, ct := range codePointTrees(runes[i]) {
				text, err := runSerCheck(*check, ct, (i+j)%3, nil, false)
				atomic.AddInt64(&st.evals, 1)
				if err != nil {
					reportT(ct, (i+j)%3, fmt.Sprintf("code point U+%04X: %s", runes[i], ct.String()), text, err, *seed)
					return
				}
			}
		})
		st.mu.Lock()
		for _, r := range runes {
			st.distinct[uint64(r)|1<<40] = struct{}{}
		}
		st.mu.Unlock()
	}
	// phase 3: random numbers
	if *floats > 0 && st.nviol() == 0 {
		chunks := (*floats + 49) / 50
		parallel(chunks, *workers, func(i int) {
			if st.nviol() > 0 {
				return
			}
			rng := rand.New(rand.NewSource(*seed*104729 + int64(i)))
			ct := &jsonx.CTree{Kind: 'L'}
			for j := 0; j < 50; j++ {
				cls := "randFloat"
				if j%5 == 4 {
					cls = "randInt"
				}
				n := jsonx.RandNum(cls, rng)
				if n.IsFloat {
					ct.Elems = append(ct.Elems, &jsonx.CTree{Kind: 'f', F: n.F})
				} else {
					ct.Elems = append(ct.Elems, &jsonx.CTree{Kind: 'i', I: n.I})
				}
			}
			if i%2 == 1 {
				o := &jsonx.CTree{Kind: 'O'}
				for j, e := range ct.Elems {
					o.Keys = append(o.Keys, fmt.Sprintf("k%d", j))
					o.Elems = append(o.Elems, e)
				}
				ct = o
			}
			text, err := runSerCheck(*check, ct, i%3, nil, false)
			atomic.AddInt64(&st.evals, 50)
			st.seen(ct.String())
			if err != nil {
				reportT(ct, i%3, "random numbers: "+ct.String(), text, err, *seed)
			}
		})
	}
	// phase 4: deep random trees
	if *deep > 0 && st.nviol() == 0 {
		parallel(*deep, *workers, func(i int) {
			if st.nviol() > 0 {
				return
			}
			rng := rand.New(rand.NewSource(*seed*15485863 + int64(i)))
			ct := randomTree(rng, 2+rng.Intn(6))
			text, err := runSerCheck(*check, ct, i%3, nil, false)
			atomic.AddInt64(&st.evals, 1)
			st.seen(ct.String())
			if err != nil {
				reportT(ct, i%3, "random tree: "+ct.String(), text, err, *seed)
			}
		})
	}
	// phase 5: nesting chains deeper than any indent*level product the layout code may special-case, and a very
	// large document followed by small ones (state kept between calls)
	if st.nviol() == 0 {
		chain := func(depth int, obj bool) *jsonx.CTree {
			cur := &jsonx.CTree{Kind: 's', S: "leaf"}
			for d := 0; d < depth; d++ {
				if obj && d%2 == 0 {
					cur = &jsonx.CTree{Kind: 'O', Keys: []string{"k", "z"}, Elems: []*jsonx.CTree{cur, {Kind: 'i', I: d}}}
				} else {
					cur = &jsonx.CTree{Kind: 'L', Elems: []*jsonx.CTree{{Kind: 'i', I: d}, cur}}
				}
			}
			return cur
		}
		var seq []*jsonx.CTree
		for _, d := range []int{8, 9, 10, 12, 17, 33} {
			seq = append(seq, chain(d, false), chain(d, true))
		}
		big := &jsonx.CTree{Kind: 'L'}
		for i := 0; i < 30000; i++ {
			big.Elems = append(big.Elems, &jsonx.CTree{Kind: 'i', I: i})
		}
		bigO := &jsonx.CTree{Kind: 'O'}
		for i := 0; i < 8000; i++ {
			bigO.Keys = append(bigO.Keys, fmt.Sprintf("key-%d", i))
			bigO.Elems = append(bigO.Elems, &jsonx.CTree{Kind: 's', S: "value"})
		}
		small := &jsonx.CTree{Kind: 'L', Elems: []*jsonx.CTree{{Kind: 'i', I: 1}, {Kind: 'O', Keys: []string{"a"}, Elems: []*jsonx.CTree{{Kind: 'z'}}}}}
		long := strings.Repeat("long line ", 7000)
		longNested := &jsonx.CTree{Kind: 'L', Elems: []*jsonx.CTree{{Kind: 'O', Keys: []string{"text", long[:66000]}, Elems: []*jsonx.CTree{{Kind: 's', S: long}, {Kind: 'L', Elems: []*jsonx.CTree{{Kind: 's', S: long[:65600]}, {Kind: 'i', I: 1}}}}}, {Kind: 'i', I: 2}}}
		// many shallow records with empty containers inside (per-container bookkeeping that is not undone adds up)
		records := &jsonx.CTree{Kind: 'L'}
		for i := 0; i < 12000; i++ {
			records.Elems = append(records.Elems, &jsonx.CTree{Kind: 'O', Keys: []string{"id", "attrs", "tags", "name"},
				Elems: []*jsonx.CTree{{Kind: 'i', I: i}, {Kind: 'O'}, {Kind: 'L'}, {Kind: 's', S: "n"}}})
		}
		seq = append(seq, big, small, small, bigO, small, big, chain(4, true), small, longNested, small, records, small)
		for i, ct := range seq {
			text, err := runSerCheck(*check, ct, i%3, nil, true)
			atomic.AddInt64(&st.evals, 1)
			if err != nil {
				if len(text) > 300 {
					text = text[:300] + "..."
				}
				desc := fmt.Sprintf("sequence item %d (nesting chains / very large documents followed by small ones)", i)
				reportT(nil, i%3, desc, text, err, *seed)
				break
			}
		}
	}
	return finishDocs(*prop, st, *out, *replayDir, map[string]any{
		"tlc_documents": tlcDocs, "picks": *picks, "code_points": cpCount, "random_numbers": *floats, "deep_trees": *deep,
		"check": *check, "wall_s": time.Since(start).Seconds(),
	})
}

func finishDocs(prop string, st *docStats, out, replayDir string, extra map[string]any) int {
	for i, v := range st.viol {
		if replayDir != "" {
			os.MkdirAll(replayDir, 0o755)
			p := filepath.Join(replayDir, fmt.Sprintf("%s-%x-%d.json", prop, fnv(v.Sig)&0xffffff, i))
			v.Replay = p
			b, _ := json.MarshalIndent(v, "", " ")
			os.WriteFile(p, b, 0o644)
		}
	}
	sum := map[string]any{"evaluations": st.evals, "distinct": len(st.distinct), "samples": st.samples, "violations": st.viol}
	for k, v := range extra {
		sum[k] = v
	}
	b, _ := json.MarshalIndent(sum, "", " ")
	if out != "" {
		os.WriteFile(out, b, 0o644)
	} else {
		os.Stdout.Write(b)
	}
	if len(st.viol) > 0 {
		fmt.Printf("MISMATCH property=%s :: %s\n", prop, st.viol[0].Message)
		return 1
	}
	if st.evals == 0 {
		return 2
	}
	return 0
}

// cmdDocReplay re-runs one recorded violation of the JSON family on the current tree.
func cmdDocReplay(args []string) int {
	fs := flag.NewFlagSet("docreplay", flag.ExitOnError)
	file := fs.String("file", "", "replay file")
	fs.Parse(args)
	b, err := os.ReadFile(*file)
	if err != nil {
		fmt.Fprintln(os.Stderr, err)
		return 2
	}
	var v docViolation
	if err := json.Unmarshal(b, &v); err != nil {
		fmt.Fprintln(os.Stderr, err)
		return 2
	}
	var rerr error
	switch v.Check {
	case "roundtrip", "stdjson", "format":
		if v.Tree == nil {
			fmt.Fprintln(os.Stderr, "replay file has no tree")
			return 2
		}
		_, rerr = runSerCheck(v.Check, v.Tree, v.How, nil, true)
	case "parse":
		if v.Tree == nil {
			fmt.Fprintln(os.Stderr, "replay file has no expected tree")
			return 2
		}
		rerr = checkParseValid(&concDoc{text: v.Text, expected: v.Tree, root: v.Tree.Kind, rootOff: strings.IndexAny(v.Text, "[{")})
	case "total", "termination":
		rerr = checkTotal(v.Text)
	case "cut":
		if v.Tree != nil {
			rerr = cutDocCheck(v.Tree, v.How, nil)
		} else {
			rerr = checkTotal(v.Text)
		}
	case "errline":
		if v.Rec == nil {
			fmt.Fprintln(os.Stderr, "replay file has no record")
			return 2
		}
		tmp, _ := os.MkdirTemp("", "vh-replay-")
		defer os.RemoveAll(tmp)
		_, rerr, _ = errlineOne(v.Rec, v.Index, v.Seed, tmp)
	default:
		if strings.HasPrefix(v.Check, "views:") {
			var r listRec
			if err := json.Unmarshal([]byte(v.Input), &r); err != nil {
				fmt.Fprintln(os.Stderr, "bad record in replay file:", err)
				return 2
			}
			_, rerr = runViewsRecord(strings.TrimPrefix(v.Check, "views:"), &r, v.Seed, nil)
			break
		}
		fmt.Fprintln(os.Stderr, "unknown check", v.Check)
		return 2
	}
	if rerr != nil {
		fmt.Printf("VIOLATION property=%s replay=%s\n  %s\n", v.Property, *file, rerr)
		return 1
	}
	fmt.Println("replay: the recorded case passes on this tree (original message: " + v.Message + ")")
	return 0
}

func init() {
	extraCmds["ser"] = cmdSer
	extraCmds["docreplay"] = cmdDocReplay
}
