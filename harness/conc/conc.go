// Package conc maps abstract tokens of the TLA+ specifications to concrete Go values and back.
package conc

import (
	"fmt"
	"math"
	"math/rand"
	"sort"
	"strings"

	"verif/harness/model"
)

// Table is one concretisation of the abstract scalar tokens.
type Table struct {
	Name   string
	Ints   map[int]int     // int token -> Go int (identity when absent)
	Floats map[int]float64 // float token -> Go float64 (token/4 when absent)
	Strs   []string        // string/key token i -> Strs[i-1]
	revStr map[string]int
	revInt map[int]int
	revFlt map[float64]int
}

// WeirdKeys exercises C06's "arbitrary strings" (empty, sigils, quotes, non-ASCII).
var WeirdKeys = []string{"", "a.b", "#0", "\"k\"", "ž ", "k\\", "\x00\x7f", "😀"}

// PlainKeys are free of '.' and '#' and non-empty (tree-form domain, C10/C11).
var PlainKeys = []string{"a", "b", "c", "key", "ž", "k k", "0", "-1", "x\"y", "😀"}

// LongGroups: see mode "long".
var LongGroups = func() [][]string {
	base := strings.Repeat("p", 70)
	return [][]string{
		{base + "a", base + "A", base + "b", base, base + base + base + base + "z"},
		{"Key", "key", "KEY", " key", "key "},
		{"straße", "STRASSE", "strasse"},
		{"\u00e9", "e\u0301", "E\u0301"},
		{"1", "01", "0x1", "1e0"},
		{"true", "null", "nil", "True"},
	}
}()

func (t *Table) finish() *Table {
	t.revStr = map[string]int{}
	for i, s := range t.Strs {
		if _, dup := t.revStr[s]; dup {
			panic("conc: duplicate string in pool: " + s)
		}
		t.revStr[s] = i + 1
	}
	t.revInt = map[int]int{}
	for k, v := range t.Ints {
		t.revInt[v] = k
	}
	t.revFlt = map[float64]int{}
	for k, v := range t.Floats {
		t.revFlt[v] = k
	}
	return t
}

// New builds a table. mode: "plain" (identity ints, plain keys), "weird" (weird keys),
// "extreme" (monotone extreme ints/floats, plain keys), or "rand" (seeded choice).
func New(mode string, seed int64, nstr int) *Table {
	rng := rand.New(rand.NewSource(seed))
	t := &Table{Name: mode, Ints: map[int]int{}, Floats: map[int]float64{}}
	// the nstr tokens in use get a random choice from the pool, ordered bytewise so that the
	// token order is the string order (Sort, C17); the rest of the pool follows
	pick := func(pool []string) []string {
		p := append([]string(nil), pool...)
		rng.Shuffle(len(p), func(i, j int) { p[i], p[j] = p[j], p[i] })
		if nstr > len(p) {
			nstr = len(p)
		}
		sort.Strings(p[:nstr])
		return p
	}
	switch mode {
	case "plain":
		t.Strs = append([]string(nil), PlainKeys...)
		sort.Strings(t.Strs[:3])
	case "bytes":
		// strings that are not valid UTF-8 (containers must hold and hand back any Go string unchanged)
		t.Strs = []string{"k\xfe", "k\xff", "\xc3(", "a\x80b", "\xed\xa0\x80", "plain"}
		sort.Strings(t.Strs[:nstr])
	case "long":
		// look-alikes: long common prefixes (differences in the last byte only, one string a prefix of the others), case pairs,
		// canonically equivalent Unicode spellings, strings that read like other kinds; all non-empty and free of '.' and '#'
		// whole groups of look-alikes come first, so that the few strings in use are look-alikes of each other
		groups := append([][]string(nil), LongGroups...)
		rng.Shuffle(len(groups), func(i, j int) { groups[i], groups[j] = groups[j], groups[i] })
		for _, g := range groups {
			g = append([]string(nil), g...)
			rng.Shuffle(len(g), func(i, j int) { g[i], g[j] = g[j], g[i] })
			t.Strs = append(t.Strs, g...)
		}
		if nstr > len(t.Strs) {
			nstr = len(t.Strs)
		}
		sort.Strings(t.Strs[:nstr])
	case "bounds":
		// ints at the edges of the 8-, 16- and 32-bit ranges (tokens 0..4 are -129, -128, 127, 128, 129), strictly increasing
		t.Strs = pick(PlainKeys)
		ints := []int{-2147483649, -2147483648, -32769, -32768, -129, -128, 127, 128, 129, 255, 256, 32767, 32768, 65535, 65536, 2147483648}
		for i, v := range ints {
			t.Ints[i-4] = v
		}
	case "tfdots":
		// tree-form reads: the first two keys are path-safe, the others spell paths over them ("a.b" next to a -> b): a path
		// must be resolved segment by segment, never looked up as one field name. Order as listed (no Sort in these configs).
		t.Strs = []string{"a", "b", "a.b", "a#0", "b.a", "a.a"}
	case "dots":
		// keys that look like tree-form paths of each other: ".a" must not be read as the path to "a"
		t.Strs = []string{".a", ".a.b", "a", "b", "#0", ".b"}
		sort.Strings(t.Strs[:nstr])
	case "weird":
		t.Strs = pick(WeirdKeys)
	case "extreme":
		t.Strs = pick(PlainKeys)
		// strictly increasing images for tokens -3..12
		// tokens 2 and 3 are 2^53 and 2^53+1: distinct ints with the same float64 image
		ints := []int{math.MinInt, math.MinInt + 1, -(1 << 53) - 1, -1, 0, 1, 1 << 53, 1<<53 + 1, 1<<53 + 2, math.MaxInt - 6, math.MaxInt - 5, math.MaxInt - 4, math.MaxInt - 3, math.MaxInt - 2, math.MaxInt - 1, math.MaxInt}
		for i, v := range ints {
			t.Ints[i-4] = v
		}
		// tokens 4 and 5 are adjacent float64 values (Equals must tell them apart)
		flts := []float64{-math.MaxFloat64, -1e300, -1.5, -math.SmallestNonzeroFloat64, 0, math.SmallestNonzeroFloat64, 0.1, 0.2, 0.3, math.Nextafter(0.3, 1), 1e300, math.MaxFloat64}
		for i, v := range flts {
			t.Floats[i-4] = v
		}
	default:
		if rng.Intn(2) == 0 {
			t.Strs = pick(WeirdKeys)
		} else {
			t.Strs = pick(PlainKeys)
		}
	}
	return t.finish()
}

// NewTF builds a table whose strings are tree-form safe.
// NewGen builds a table with n generated plain keys k000 < k001 < ... (large objects).
func NewGen(n int) *Table {
	t := &Table{Name: "gen", Ints: map[int]int{}, Floats: map[int]float64{}}
	for i := 0; i < n; i++ {
		t.Strs = append(t.Strs, fmt.Sprintf("k%03d", i))
	}
	return t.finish()
}

func NewTF(seed int64, nstr int) *Table {
	rng := rand.New(rand.NewSource(seed))
	t := &Table{Name: "tf", Ints: map[int]int{}, Floats: map[int]float64{}}
	p := append([]string(nil), PlainKeys...)
	rng.Shuffle(len(p), func(i, j int) { p[i], p[j] = p[j], p[i] })
	if nstr > len(p) {
		nstr = len(p)
	}
	// one of the keys in use is always non-ASCII (multi-byte keys in non-terminal path segments)
	if nstr >= 1 {
		na := []string{"ž", "😀"}[rng.Intn(2)]
		for i, k := range p {
			if k == na {
				p[i], p[0] = p[0], p[i]
			}
		}
	}
	sort.Strings(p[:nstr])
	t.Strs = p
	return t.finish()
}

// WithInt maps one more int token to a chosen value.
func (t *Table) WithInt(tok int, v int) *Table {
	t.Ints[tok] = v
	t.revInt[v] = tok
	return t
}

// WithFloat maps one more float token to a chosen value (used by the trace driver for the infinities).
func (t *Table) WithFloat(tok int, v float64) *Table {
	t.Floats[tok] = v
	t.revFlt[v] = tok
	return t
}

func (t *Table) Str(i int) string {
	if i < 1 || i > len(t.Strs) {
		panic(fmt.Sprintf("conc: string token %d outside pool of %d", i, len(t.Strs)))
	}
	return t.Strs[i-1]
}

func (t *Table) Int(i int) int {
	if v, ok := t.Ints[i]; ok {
		return v
	}
	return i
}

func (t *Table) Float(i int) float64 {
	if v, ok := t.Floats[i]; ok {
		return v
	}
	return float64(i) / 4
}

// Go returns the Go value of a scalar token.
func (t *Table) Go(v model.Val) any {
	switch v.K {
	case "nil":
		return nil
	case "bool":
		return v.V == 1
	case "int":
		return t.Int(v.V)
	case "float":
		return t.Float(v.V)
	case "str":
		return t.Str(v.V)
	}
	panic("conc: not a scalar: " + v.String())
}

// Abs abstracts a Go scalar; ok=false if it is not the image of a token.
func (t *Table) Abs(x any) (model.Val, bool) {
	switch g := x.(type) {
	case nil:
		return model.Val{K: "nil"}, true
	case bool:
		if g {
			return model.Val{K: "bool", V: 1}, true
		}
		return model.Val{K: "bool", V: 0}, true
	case int:
		if k, ok := t.revInt[g]; ok {
			return model.Val{K: "int", V: k}, true
		}
		if _, clash := t.Ints[g]; clash {
			return model.Val{}, false
		}
		if g > -1000 && g < 1000 {
			return model.Val{K: "int", V: g}, true
		}
		return model.Val{}, false
	case float64:
		if k, ok := t.revFlt[g]; ok {
			return model.Val{K: "float", V: k}, true
		}
		q := g * 4
		if q == math.Trunc(q) && math.Abs(q) < 4000 {
			if _, clash := t.Floats[int(q)]; !clash {
				return model.Val{K: "float", V: int(q)}, true
			}
		}
		return model.Val{}, false
	case string:
		if k, ok := t.revStr[g]; ok {
			return model.Val{K: "str", V: k}, true
		}
		return model.Val{}, false
	}
	return model.Val{}, false
}
