// Package model holds the wire format shared with the TLA+ specifications
// (spec/Heap.tla, spec/HeapGraph.tla): values, cells, heaps, operations, edges.
package model

import (
	"bufio"
	"bytes"
	"encoding/json"
	"fmt"
	"io"
	"strconv"
	"strings"
)

// Val is [kind, v].
type Val struct {
	K string
	V int
}

func (v Val) String() string { return v.K + ":" + strconv.Itoa(v.V) }

func (v *Val) UnmarshalJSON(b []byte) error {
	var raw []json.RawMessage
	if err := json.Unmarshal(b, &raw); err != nil {
		return err
	}
	if len(raw) != 2 {
		return fmt.Errorf("value: want 2 elements, got %s", b)
	}
	if err := json.Unmarshal(raw[0], &v.K); err != nil {
		return err
	}
	return json.Unmarshal(raw[1], &v.V)
}

func (v Val) MarshalJSON() ([]byte, error) {
	return []byte(fmt.Sprintf(`[%q,%d]`, v.K, v.V)), nil
}

// Cell is [tag, [values]].
type Cell struct {
	T string
	E []Val
}

func (c *Cell) UnmarshalJSON(b []byte) error {
	var raw []json.RawMessage
	if err := json.Unmarshal(b, &raw); err != nil {
		return err
	}
	if len(raw) != 2 {
		return fmt.Errorf("cell: want 2 elements, got %s", b)
	}
	if err := json.Unmarshal(raw[0], &c.T); err != nil {
		return err
	}
	return json.Unmarshal(raw[1], &c.E)
}

func (c Cell) MarshalJSON() ([]byte, error) {
	e, _ := json.Marshal(c.E)
	if c.E == nil {
		e = []byte("[]")
	}
	return []byte(fmt.Sprintf(`[%q,%s]`, c.T, e)), nil
}

// Heap is indexed by reference id - 1.
type Heap []Cell

func (h Heap) Key() string {
	b, _ := json.Marshal(h)
	return string(b)
}

// Op is [op, r, i, j, v, vs, ks].
type Op struct {
	Op string
	R  int
	I  int
	J  int
	V  Val
	Vs []Val
	Ks []int
}

func (o *Op) UnmarshalJSON(b []byte) error {
	var raw []json.RawMessage
	if err := json.Unmarshal(b, &raw); err != nil {
		return err
	}
	if len(raw) != 7 {
		return fmt.Errorf("op: want 7 elements, got %s", b)
	}
	dst := []any{&o.Op, &o.R, &o.I, &o.J, &o.V, &o.Vs, &o.Ks}
	for i, d := range dst {
		if err := json.Unmarshal(raw[i], d); err != nil {
			return fmt.Errorf("op field %d: %v in %s", i, err, b)
		}
	}
	return nil
}

func (o Op) MarshalJSON() ([]byte, error) {
	v, _ := json.Marshal(o.V)
	vs, _ := json.Marshal(o.Vs)
	if o.Vs == nil {
		vs = []byte("[]")
	}
	ks, _ := json.Marshal(o.Ks)
	if o.Ks == nil {
		ks = []byte("[]")
	}
	return []byte(fmt.Sprintf(`[%q,%d,%d,%d,%s,%s,%s]`, o.Op, o.R, o.I, o.J, v, vs, ks)), nil
}

func (o Op) String() string {
	b, _ := o.MarshalJSON()
	return string(b)
}

// Key identifies an operation instance (op + arguments).
func (o Op) Key() string { return o.String() }

// Edge is [op, panicked, ret, to]; an empty `to` means "heap unchanged".
type Edge struct {
	O   Op
	P   bool
	Ret Val
	To  int // state id of the successor (-1 = same state)
}

type rawEdge struct {
	O   Op
	P   bool
	Ret Val
	To  json.RawMessage
}

func (e *rawEdge) UnmarshalJSON(b []byte) error {
	var raw []json.RawMessage
	if err := json.Unmarshal(b, &raw); err != nil {
		return err
	}
	if len(raw) != 4 {
		return fmt.Errorf("edge: want 4 elements, got %s", b)
	}
	if err := json.Unmarshal(raw[0], &e.O); err != nil {
		return err
	}
	if err := json.Unmarshal(raw[1], &e.P); err != nil {
		return err
	}
	if err := json.Unmarshal(raw[2], &e.Ret); err != nil {
		return err
	}
	e.To = raw[3]
	return nil
}

// Obs is the observation table of a state.
type Obs struct {
	Eq [][2]int
	Io []IoEntry
	Ko []KoEntry
	Tf []TfEntry
}

type IoEntry struct {
	R int
	V Val
	I int
}
type KoEntry struct {
	R  int
	V  Val
	Ks []int
}
type TfEntry struct {
	R int
	P []Val
	V Val
}

func un3(b []byte, a, c, d any) error {
	var raw []json.RawMessage
	if err := json.Unmarshal(b, &raw); err != nil {
		return err
	}
	if len(raw) != 3 {
		return fmt.Errorf("want 3 elements, got %s", b)
	}
	if err := json.Unmarshal(raw[0], a); err != nil {
		return err
	}
	if err := json.Unmarshal(raw[1], c); err != nil {
		return err
	}
	return json.Unmarshal(raw[2], d)
}
func (e *IoEntry) UnmarshalJSON(b []byte) error { return un3(b, &e.R, &e.V, &e.I) }
func (e *KoEntry) UnmarshalJSON(b []byte) error { return un3(b, &e.R, &e.V, &e.Ks) }
func (e *TfEntry) UnmarshalJSON(b []byte) error { return un3(b, &e.R, &e.P, &e.V) }

// State is one node of the TLC state graph.
type State struct {
	ID    int
	Heap  Heap
	Obs   Obs
	Edges []Edge
	// Groups: edges grouped by operation instance (several edges = nondeterministic spec step)
	Groups [][]int
	Depth  int // BFS depth from the initial state (-1 = unknown)
	Parent int // BFS tree parent state
	PEdge  int // edge index in the parent
}

// Graph is the reachable state graph printed by TLC.
type Graph struct {
	States []*State
	byKey  map[string]int
	Init   int
	NEdges int
}

type rawState struct {
	S     json.RawMessage
	Obs   rawObs
	Edges []rawEdge
}
type rawObs struct {
	Eq [][2]int
	Io []IoEntry
	Ko []KoEntry
	Tf []TfEntry
}

func canon(b json.RawMessage) string {
	var buf bytes.Buffer
	if err := json.Compact(&buf, b); err != nil {
		return string(b)
	}
	return buf.String()
}

// LoadGraph reads TLC's stdout: every line that is a quoted JSON object is a state record.
func LoadGraph(r io.Reader) (*Graph, error) {
	g := &Graph{byKey: map[string]int{}}
	sc := bufio.NewReaderSize(r, 1<<20)
	type pend struct {
		st    *State
		edges []rawEdge
	}
	var pends []pend
	id := func(key string) int {
		if i, ok := g.byKey[key]; ok {
			return i
		}
		i := len(g.States)
		g.byKey[key] = i
		g.States = append(g.States, nil)
		return i
	}
	for {
		line, err := sc.ReadString('\n')
		if len(line) > 0 {
			line = strings.TrimRight(line, "\r\n")
			if strings.HasPrefix(line, `"{`) {
				var inner string
				if e := json.Unmarshal([]byte(line), &inner); e != nil {
					return nil, fmt.Errorf("bad TLC string line: %v", e)
				}
				var rs rawState
				if e := json.Unmarshal([]byte(inner), &rs); e != nil {
					return nil, fmt.Errorf("bad state record: %v: %.200s", e, inner)
				}
				key := canon(rs.S)
				sid := id(key)
				st := &State{ID: sid, Depth: -1, Parent: -1}
				if e := json.Unmarshal(rs.S, &st.Heap); e != nil {
					return nil, e
				}
				st.Obs = Obs(rs.Obs)
				g.States[sid] = st
				pends = append(pends, pend{st, rs.Edges})
			}
		}
		if err == io.EOF {
			break
		}
		if err != nil {
			return nil, err
		}
	}
	for _, p := range pends {
		groups := map[string]int{}
		for _, re := range p.edges {
			to := -1
			if c := canon(re.To); c != "[]" {
				t, ok := g.byKey[c]
				if !ok {
					return nil, fmt.Errorf("edge leads to a state TLC never expanded: %s", c)
				}
				to = t
			}
			p.st.Edges = append(p.st.Edges, Edge{O: re.O, P: re.P, Ret: re.Ret, To: to})
			k := re.O.Key()
			gi, ok := groups[k]
			if !ok {
				gi = len(p.st.Groups)
				groups[k] = gi
				p.st.Groups = append(p.st.Groups, nil)
			}
			p.st.Groups[gi] = append(p.st.Groups[gi], len(p.st.Edges)-1)
			g.NEdges++
		}
	}
	for i, s := range g.States {
		if s == nil {
			return nil, fmt.Errorf("state %d referenced but never expanded", i)
		}
	}
	init, ok := g.byKey["[]"]
	if !ok {
		return nil, fmt.Errorf("no initial (empty heap) state in the graph")
	}
	g.Init = init
	// BFS depths
	g.States[init].Depth = 0
	queue := []int{init}
	for len(queue) > 0 {
		s := g.States[queue[0]]
		queue = queue[1:]
		for ei, e := range s.Edges {
			if e.To >= 0 && g.States[e.To].Depth < 0 {
				t := g.States[e.To]
				t.Depth = s.Depth + 1
				t.Parent = s.ID
				t.PEdge = ei
				queue = append(queue, e.To)
			}
		}
	}
	return g, nil
}
