module verif/harness

go 1.18

require github.com/DanielSvub/anytype v0.0.0

replace github.com/DanielSvub/anytype => /repo
