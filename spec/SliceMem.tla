------------------------------ MODULE SliceMem ------------------------------
(***************************************************************************)
(* Go slices under anytype's list (implementation-shaped, see DESIGN §3.7). *)
(*                                                                          *)
(* A list is a slice header (len, cap, arr) over a backing array.  The      *)
(* module states, operation by operation, what list_impl.go does to the     *)
(* header and to the array, including Go's `append` rule (write in place    *)
(* while len < cap, otherwise move to a fresh, larger array), and shows     *)
(* that this implements the abstract sequence semantics of Heap.tla:        *)
(*                                                                          *)
(*   Refines   the receiver / the result holds exactly the sequence the     *)
(*             abstract operation yields,                                   *)
(*   Frame     no other list changes its contents (C05, C09: "top-level     *)
(*             slots are never shared"),                                    *)
(*   Ownership two lists never share a backing array (the implementation    *)
(*             invariant that makes Frame true).                            *)
(*                                                                          *)
(* Bug selects a seeded variant: "concat-append" is defect D5 (Concat       *)
(* appended to the receiver's slice, so the result could live in the        *)
(* receiver's spare capacity) and "sublist-reslice" returns a window of     *)
(* the receiver's array: TLC must find Ownership and Frame violated for     *)
(* both (negative configs).  "clear-reslice" (Clear keeps the array:        *)
(* val[:0]) is a harmless variant: all three properties still hold, which   *)
(* shows that owning the array, not re-allocating, is what matters.         *)
(*                                                                          *)
(* The same header rules are reused by SliceTrace.tla to validate headers   *)
(* recorded from the real library through the VerifSpine hook.              *)
(***************************************************************************)
EXTENDS SliceHdr, FiniteSets, TLC

CONSTANTS MaxLists,    \* lists alive at most
          MaxCap,      \* capacity bound of the exhaustive model
          Vals,        \* element values
          Bug          \* "none" | "concat-append" | "sublist-reslice" | "clear-reslice"

Nil == 0               \* content of an array slot beyond every length that used it (Vals are positive)

VARIABLES spine,       \* sequence of headers [len, cap, arr]; list r = spine[r]
          mem,         \* arr id -> sequence of slots, Len = the array's size
          recv,        \* list written by the last step (0: none)
          expect       \* abstract sequence that list must hold now

vars == <<spine, mem, recv, expect>>

Lists == 1..Len(spine)
Contents(r) == SubSeq(mem[spine[r].arr], 1, spine[r].len)

Arrays == DOMAIN mem

\* ---- memory helpers ----------------------------------------------------------------------

Pad(s, n) == s \o [i \in 1..(n - Len(s)) |-> Nil]
WithArr(m, a, slots) == [x \in (DOMAIN m) \cup {a} |-> IF x = a THEN slots ELSE m[x]]
\* the smallest array id not in use (arrays no list refers to any more are collected after every step)
NewArrId == CHOOSE a \in 1..(Cardinality(DOMAIN mem) + 1) : a \notin DOMAIN mem
GC(m, sp) == [a \in {ZeroArr} \cup {sp[r].arr : r \in 1..Len(sp)} |-> m[a]]

\* write sequence s into the slots starting at slot p (1-based), in place
Blit(slots, p, s) == [i \in 1..Len(slots) |-> IF i >= p /\ i < p + Len(s) THEN s[i - p + 1] ELSE slots[i]]

CapChoices == 1..MaxCap

Commit(sp, m, rv, ex) == /\ spine' = sp
                         /\ mem' = GC(m, sp)
                         /\ recv' = rv
                         /\ expect' = ex

\* ---- actions -------------------------------------------------------------------------------

Init == /\ spine = <<>>
        /\ mem = [a \in {ZeroArr} |-> <<>>]
        /\ recv = 0
        /\ expect = <<>>

\* NewList(): &list{val: []field{}}
NewList == /\ Len(spine) < MaxLists
           /\ Commit(Append(spine, Hdr(0, 0, ZeroArr)), mem, Len(spine) + 1, <<>>)

\* memory after appending sequence s to header h (whose current contents are c) when the new header is nh
AppendMem(h, c, s, nh) ==
    IF nh.arr = h.arr
    THEN [mem EXCEPT ![h.arr] = Blit(@, h.len + 1, s)]
    ELSE WithArr(mem, nh.arr, Pad(c \o s, nh.cap))

\* Add(v): ego.val = append(ego.val, v)
Add(r, v) ==
    LET h == spine[r] IN
    /\ h.len < MaxCap
    /\ \E nh \in AppendHdr(h, 1, NewArrId, CapChoices) :
         Commit([spine EXCEPT ![r] = nh], AppendMem(h, Contents(r), <<v>>, nh), r, Append(Contents(r), v))

\* Insert(i, v), 0-based i < len:  ego.val = append(ego.val[:i+1], ego.val[i:]...) ; ego.val[i] = v
Insert(r, i, v) ==
    LET h == spine[r]
        c == Contents(r)
        head == SubSeq(c, 1, i + 1)          \* ego.val[:i+1]
        tail == SubSeq(c, i + 1, h.len)      \* ego.val[i:]
    IN /\ i \in 0..(h.len - 1)
       /\ h.len < MaxCap
       /\ \E nh \in AppendHdr(Hdr(i + 1, h.cap, h.arr), Len(tail), NewArrId, CapChoices) :
            Commit([spine EXCEPT ![r] = nh],
                   IF nh.arr = h.arr
                   THEN [mem EXCEPT ![h.arr] = Blit(Blit(@, i + 2, tail), i + 1, <<v>>)]   \* memmove, then the store
                   ELSE WithArr(mem, nh.arr, Pad(Blit(head \o tail, i + 1, <<v>>), nh.cap)),
                   r, SubSeq(c, 1, i) \o <<v>> \o tail)

\* Replace(i, v)
Replace(r, i, v) ==
    /\ i \in 0..(spine[r].len - 1)
    /\ Commit(spine, [mem EXCEPT ![spine[r].arr] = Blit(@, i + 1, <<v>>)], r, [Contents(r) EXCEPT ![i + 1] = v])

\* Delete(i):  ego.val = append(ego.val[:i], ego.val[i+1:]...)   (always fits: in place; the last slot keeps its old value)
Delete(r, i) ==
    LET h == spine[r]
        c == Contents(r)
        tail == SubSeq(c, i + 2, h.len)
    IN /\ i \in 0..(h.len - 1)
       /\ Commit([spine EXCEPT ![r] = Hdr(h.len - 1, h.cap, h.arr)], [mem EXCEPT ![h.arr] = Blit(@, i + 1, tail)],
                 r, SubSeq(c, 1, i) \o tail)

\* Clear():  ego.val = []field{}      ("clear-reslice": ego.val = ego.val[:0] — harmless as long as nobody else owns the array)
Clear(r) ==
    Commit([spine EXCEPT ![r] = IF Bug = "clear-reslice" THEN Hdr(0, @.cap, @.arr) ELSE Hdr(0, 0, ZeroArr)], mem, r, <<>>)

\* Reverse(): swaps in place
Rev(c) == [i \in 1..Len(c) |-> c[Len(c) + 1 - i]]
Reverse(r) ==
    /\ spine[r].len > 1
    /\ Commit(spine, [mem EXCEPT ![spine[r].arr] = Blit(@, 1, Rev(Contents(r)))], r, Rev(Contents(r)))

\* Sort(): ego.val = NewListFrom(sortedSlice).val — a fresh array of exactly len slots
Sorted(c) == SortSeq(c, LAMBDA a, b : a < b)
Sort(r) ==
    LET c == Contents(r)
        nh == MakeHdr(Len(c), NewArrId)
    IN /\ Len(c) > 0
       /\ Commit([spine EXCEPT ![r] = nh], WithArr(mem, nh.arr, Sorted(c)), r, Sorted(c))

\* a new list with its own array of exactly Len(c) slots (make + copy)
Fresh(c) ==
    LET nh == MakeHdr(Len(c), NewArrId) IN
    Commit(Append(spine, nh), IF nh.arr = ZeroArr THEN mem ELSE WithArr(mem, nh.arr, c), Len(spine) + 1, c)

\* SubList(s, e), 0 <= s <= e <= len:  make([]field, e-s) + copy      ("sublist-reslice": ego.val[s:e])
SubListOp(r, s, e) ==
    LET h == spine[r]
        c == SubSeq(Contents(r), s + 1, e)
    IN /\ Len(spine) < MaxLists
       /\ s \in 0..h.len /\ e \in s..h.len
       /\ IF Bug = "sublist-reslice" /\ h.cap > 0
          THEN \* a re-slice shares the array; modelled for s = 0 (a window starting later needs offsets, not needed to show the point)
               /\ s = 0
               /\ Commit(Append(spine, Hdr(e, h.cap, h.arr)), mem, Len(spine) + 1, c)
          ELSE Fresh(c)

\* Concat(q):  make([]field, 0, len+len) + two appends                ("concat-append": append(ego.val, other...), defect D5)
Concat(r, q) ==
    LET h == spine[r]
        c == Contents(r) \o Contents(q)
    IN /\ Len(spine) < MaxLists
       /\ Len(c) <= MaxCap
       /\ IF Bug = "concat-append"
          THEN \E nh \in AppendHdr(h, spine[q].len, NewArrId, CapChoices) :
                 Commit(Append(spine, nh), AppendMem(h, Contents(r), Contents(q), nh), Len(spine) + 1, c)
          ELSE Fresh(c)

\* Clone() of a list of scalars: make([]field, len) + element copies
Clone(r) == Len(spine) < MaxLists /\ Fresh(Contents(r))

\* a list nobody holds any more is dropped (keeps the exhaustive model finite; the highest id only, so ids stay dense)
Drop == /\ Len(spine) > 0
        /\ Commit(SubSeq(spine, 1, Len(spine) - 1), mem, 0, <<>>)

Next ==
    \/ NewList \/ Drop
    \/ \E r \in Lists :
        \/ \E v \in Vals : Add(r, v)
        \/ \E i \in 0..MaxCap, v \in Vals : Insert(r, i, v) \/ Replace(r, i, v)
        \/ \E i \in 0..MaxCap : Delete(r, i)
        \/ Clear(r) \/ Reverse(r) \/ Sort(r) \/ Clone(r)
        \/ \E s, e \in 0..MaxCap : SubListOp(r, s, e)
        \/ \E q \in Lists : Concat(r, q)

Spec == Init /\ [][Next]_vars

\* ---- properties ------------------------------------------------------------------------------

TypeOK ==
    /\ \A r \in Lists : /\ spine[r].len \in 0..MaxCap /\ spine[r].cap \in 0..MaxCap /\ spine[r].len <= spine[r].cap
                        /\ spine[r].arr \in DOMAIN mem
                        /\ Len(mem[spine[r].arr]) = spine[r].cap
    /\ recv \in 0..Len(spine)

\* the list written by the last step holds what the abstract operation yields
Refines == recv # 0 => Contents(recv) = expect

\* two lists with room for elements never share an array
Ownership == \A r, q \in Lists : r # q /\ spine[r].cap > 0 /\ spine[q].cap > 0 => spine[r].arr # spine[q].arr

\* a step changes the contents of at most the list it names
Frame == [][\A q \in Lists : q <= Len(spine') /\ q # recv' => Contents(q)' = Contents(q)]_vars

=============================================================================
