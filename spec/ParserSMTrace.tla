--------------------------- MODULE ParserSMTrace ---------------------------
(***************************************************************************)
(* Trace validation (code -> spec) for the parser: the real parseList /    *)
(* parseObject run on long random inputs over the character classes; the   *)
(* verifStep hook records, for every consumed character, the machine and   *)
(* control state it was handled in.  TLC checks that the recorded run is a *)
(* behaviour of ParserSM.tla (same machine, same state before every        *)
(* character, same outcome, same line counter) and evaluates the design    *)
(* invariants of ParserSM on every state of these long runs.  A rejection  *)
(* is SPEC-DRIFT (the implementation-shaped model is out of date), never a *)
(* violation of a listed property.                                         *)
(***************************************************************************)
EXTENDS ParserSM

CONSTANT TraceFile
Trace == ndJsonDeserialize(TraceFile)

VARIABLE l
tvars == <<input, stack, line, outcome, trace, ref, result, l>>

TraceInit == Init /\ l = 1 /\ TLCSet(1, 1)

Ev == Trace[l]

\* a new input starts: everything back to the initial configuration, then the root bracket
TStart == /\ Ev.t = "start"
          /\ input' = <<Ev.c>>
          /\ stack' = << Frame(IF Ev.c = "[" THEN "L" ELSE "O", IF Ev.c = "[" THEN StVal ELSE StKeyStart, FALSE, "e", <<>>, "") >>
          /\ trace' = << <<IF Ev.c = "[" THEN 0 ELSE 1, StStart>> >>
          /\ line' = 1 /\ outcome' = "run" /\ result' = <<>>
          /\ ref' = RefInit(Ev.c)

\* one consumed character: the hook saw it in machine m, state s
TChar == /\ Ev.t = "ch"
         /\ outcome = "run"
         /\ (IF Top.m = "L" THEN 0 ELSE 1) = Ev.m
         /\ Top.st = Ev.s
         /\ ReadAny(Ev.c)

\* an ill-formed byte is rejected before the machine (and the hook) sees it
TIll == /\ Ev.t = "ill" /\ outcome = "run" /\ ReadAny("i")

\* the call returned: outcome and line counter as the model has them
TEnd == /\ Ev.t = "end"
        /\ Ev.out = (IF outcome = "init" THEN "run" ELSE outcome)
        /\ (Ev.line > 0 => Ev.line = line)
        /\ UNCHANGED <<input, stack, line, outcome, trace, ref, result>>

TraceNext == /\ l <= Len(Trace)
             /\ TStart \/ TChar \/ TIll \/ TEnd
             /\ l' = l + 1
TraceSpec == TraceInit /\ [][TraceNext]_tvars

Mark == TLCSet(1, IF l > TLCGet(1) THEN l ELSE TLCGet(1))
TraceAccepted == TLCGet(1) = Len(Trace) + 1
=============================================================================
