-------------------------------- MODULE Heap --------------------------------
(***************************************************************************)
(* Abstract heap of anytype containers.                                    *)
(*                                                                         *)
(* A heap is a sequence of cells indexed by reference id (allocation       *)
(* order).  A cell is [t |-> tag, e |-> tuple of values]:                  *)
(*   t = "L"  anytype List,    e = the elements in order                   *)
(*   t = "O"  anytype Object,  e = one slot per key token 1..NKeys,        *)
(*                             Absent where the key is missing             *)
(*   t = "GS" a Go []any held by the caller (Slice(), NativeSlice(), an    *)
(*            input of NewListFrom)                                        *)
(*   t = "GM" a Go map[string]any held by the caller                       *)
(* A value is [k |-> kind, v |-> Int]; kinds: nil bool int float str ref   *)
(* (v = reference id), lit (v = index into Lits: a Go literal that is      *)
(* converted into fresh containers when stored), absent, none, undef.      *)
(* String token s and key token s denote the same text.                    *)
(*                                                                         *)
(* Every API call is an operation record o (uniform shape, see Op) and     *)
(* Apply(h, o) is the SET of allowed results [out, heap]: deterministic     *)
(* where the properties fix the behaviour, a proper set exactly where they *)
(* leave freedom (object iteration order, state after a Set that panicked  *)
(* half way, multi-index Delete that panics, UnsetTF on an unresolvable    *)
(* path, nested sharing in Merge).                                         *)
(***************************************************************************)
EXTENDS Integers, Sequences, FiniteSets, TLC

CONSTANTS NKeys,    \* number of key/string tokens; objects have slots 1..NKeys
          Lits      \* tuple of literal cells (flat Go slices / maps usable as values)

V(k, v)  == [k |-> k, v |-> v]
Nil      == V("nil", 0)
Absent   == V("absent", 0)
None     == V("none", 0)
Undef    == V("undef", 0)
Ref(r)   == V("ref", r)
Bool(b)  == V("bool", IF b THEN 1 ELSE 0)
IntV(i)   == V("int", i)

Cell(t, e)  == [t |-> t, e |-> e]
EmptyObjE   == [i \in 1..NKeys |-> Absent]
EmptyCell(t) == IF t \in {"O", "GM"} THEN Cell(t, EmptyObjE) ELSE Cell(t, <<>>)

\* uniform operation record
Op(op, r, i, j, v, vs, ks) == [op |-> op, r |-> r, i |-> i, j |-> j, v |-> v, vs |-> vs, ks |-> ks]

\* uniform outcome record: p = panicked, ret = returned value (None if nothing to compare)
Ok(ret)  == [p |-> FALSE, ret |-> ret]
Panic    == [p |-> TRUE,  ret |-> None]
Res(out, h) == [out |-> out, heap |-> h]

Range(s) == {s[i] : i \in DOMAIN s}
IsList(c) == c.t \in {"L", "GS"}

(***************************************************************************)
(* Reachability, acyclicity, structural equality.                          *)
(***************************************************************************)
CellRefs(c) == {c.e[i].v : i \in {j \in DOMAIN c.e : c.e[j].k = "ref"}}

RECURSIVE ReachSet(_, _, _)
ReachSet(h, frontier, seen) ==
  IF frontier = {} THEN seen
  ELSE LET nxt == (UNION {CellRefs(h[r]) : r \in frontier}) \ seen
       IN ReachSet(h, nxt, seen \cup nxt)

\* containers reachable from r, r included
Reach(h, r) == ReachSet(h, {r}, {r})
\* containers reachable from the children of r (r itself only if there is a cycle)
Below(h, r) == LET kids == CellRefs(h[r]) IN ReachSet(h, kids, kids)

Acyclic(h) == \A r \in DOMAIN h : r \notin Below(h, r)
NoDangling(h) == \A r \in DOMAIN h : CellRefs(h[r]) \subseteq DOMAIN h
\* Go values never sit inside anytype containers
Layered(h) == \A r \in DOMAIN h : h[r].t \in {"L", "O"} =>
                 \A x \in CellRefs(h[r]) : h[x].t \in {"L", "O"}

RECURSIVE DeepEqV(_, _, _)
\* typed structural equality of two values (C07); identity is irrelevant
DeepEqV(h, a, b) ==
  IF a.k # "ref" \/ b.k # "ref" THEN a = b
  ELSE LET ca == h[a.v]  cb == h[b.v] IN
       /\ ca.t = cb.t
       /\ Len(ca.e) = Len(cb.e)
       /\ \A i \in DOMAIN ca.e : DeepEqV(h, ca.e[i], cb.e[i])

DeepEq(h, a, b) == DeepEqV(h, Ref(a), Ref(b))

RECURSIVE Unfold(_, _)
\* the pure value tree below a value, forgetting identity (second formulation of equality)
Unfold(h, v) ==
  IF v.k # "ref" THEN v
  ELSE [t |-> h[v.v].t, e |-> [i \in DOMAIN h[v.v].e |-> Unfold(h, h[v.v].e[i])]]

(***************************************************************************)
(* Storing values: literals become fresh containers (parseVal).            *)
(***************************************************************************)
Store1(h, v) ==
  IF v.k = "lit" THEN <<Append(h, Lits[v.v]), Ref(Len(h) + 1)>> ELSE <<h, v>>

RECURSIVE StoreAll(_, _, _)
StoreAll(h, vs, acc) ==
  IF vs = <<>> THEN <<h, acc>>
  ELSE LET s == Store1(h, Head(vs)) IN StoreAll(s[1], Tail(vs), Append(acc, s[2]))

NLits(vs) == Cardinality({i \in DOMAIN vs : vs[i].k = "lit"})

(***************************************************************************)
(* Deep copies.  f.tag maps the tag of a copied cell, f.deep says which    *)
(* cells are copied (the others stay shared).  Children are copied before  *)
(* their parent, one copy per occurrence.                                  *)
(***************************************************************************)
CloneF  == [tag  |-> [x \in {"L", "O", "GS", "GM"} |-> x],
            deep |-> [x \in {"L", "O", "GS", "GM"} |-> x \in {"L", "O"}]]
NativeF == [tag  |-> [x \in {"L", "O", "GS", "GM"} |-> CASE x = "L" -> "GS" [] x = "O" -> "GM" [] OTHER -> x],
            deep |-> [x \in {"L", "O", "GS", "GM"} |-> x \in {"L", "O"}]]
FromF   == [tag  |-> [x \in {"L", "O", "GS", "GM"} |-> CASE x = "GS" -> "L" [] x = "GM" -> "O" [] OTHER -> x],
            deep |-> [x \in {"L", "O", "GS", "GM"} |-> x \in {"GS", "GM"}]]

RECURSIVE CopyVal(_, _, _), CopyAt(_, _, _, _), CopySeq(_, _, _, _)
CopyVal(h, v, f) ==
  IF v.k # "ref" THEN <<h, v>>
  ELSE IF ~f.deep[h[v.v].t] THEN <<h, v>>
  ELSE LET c  == h[v.v]
           s  == CopySeq(h, c.e, <<>>, f)
           h2 == Append(s[1], Cell(f.tag[c.t], s[2]))
       IN <<h2, Ref(Len(h2))>>
\* copy the elements at the positions P (ascending); the recursion depth is the number of copied
\* containers, not the length of the sequence
CopyAt(h, es, P, f) ==
  IF P = {} THEN <<h, es>>
  ELSE LET i == CHOOSE x \in P : \A y \in P : x <= y
           s == CopyVal(h, es[i], f)
       IN CopyAt(s[1], [es EXCEPT ![i] = s[2]], P \ {i}, f)
CopySeq(h, es, acc, f) ==
  CopyAt(h, es, {i \in DOMAIN es : es[i].k = "ref" /\ f.deep[h[es[i].v].t]}, f)

\* number of cells a deep copy of value v allocates
RECURSIVE CopySize(_, _, _)
CopySize(h, v, f) ==
  IF v.k # "ref" THEN 0
  ELSE IF ~f.deep[h[v.v].t] THEN 0
  ELSE LET c == h[v.v] IN
       1 + (LET RECURSIVE Sum(_) Sum(i) == IF i = 0 THEN 0 ELSE CopySize(h, c.e[i], f) + Sum(i - 1)
            IN Sum(Len(c.e)))

(***************************************************************************)
(* Sequences.                                                              *)
(***************************************************************************)
RemoveAt(s, i) == SubSeq(s, 1, i - 1) \o SubSeq(s, i + 1, Len(s))      \* 1-based
InsertAt(s, i, x) == SubSeq(s, 1, i - 1) \o <<x>> \o SubSeq(s, i, Len(s)) \* before 1-based i
Rev(s) == [i \in 1..Len(s) |-> s[Len(s) + 1 - i]]
\* remove the 0-based indices in set I
RemoveAll(s, I) == LET idx  == [i \in 1..Len(s) |-> <<i, s[i]>>]
                       kept == SelectSeq(idx, LAMBDA p : (p[1] - 1) \notin I)
                   IN [j \in 1..Len(kept) |-> kept[j][2]]
Pad(s, n) == s \o [i \in 1..(n - Len(s)) |-> Nil]     \* pad with nil up to length n

Perms(S) == {f \in [1..Cardinality(S) -> S] : \A i, j \in 1..Cardinality(S) : i # j => f[i] # f[j]}

Sortable(k) == k \in {"str", "int", "float"}
Homogeneous(e) == \A i \in DOMAIN e : e[i].k = e[1].k
IsSortedSeq(e) == \A i \in 1..(Len(e) - 1) : e[i].v <= e[i + 1].v
SameBag(a, b) == /\ Len(a) = Len(b)
                 /\ \A x \in Range(a) \cup Range(b) :
                      Cardinality({i \in DOMAIN a : a[i] = x}) = Cardinality({i \in DOMAIN b : b[i] = x})
\* TLC's SortSeq (module TLC) is evaluated natively: no deep recursion on long lists
SortVals(s) == SortSeq(s, LAMBDA a, b : a.v < b.v)

(***************************************************************************)
(* Object helpers.                                                         *)
(***************************************************************************)
PresentKeys(c) == {k \in DOMAIN c.e : c.e[k] # Absent}
IsKey(v) == v.k = "str" /\ v.v \in 1..NKeys

\* apply key/value pairs left to right; a non-string key stops with a panic after the
\* earlier pairs were applied.  Result <<heap, panicked>>
RECURSIVE SetPairs(_, _, _)
SetPairs(h, r, vs) ==
  IF vs = <<>> THEN <<h, FALSE>>
  ELSE IF ~IsKey(vs[1]) THEN <<h, TRUE>>
  ELSE LET s == Store1(h, vs[2])
       IN SetPairs([s[1] EXCEPT ![r].e[vs[1].v] = s[2]], r, SubSeq(vs, 3, Len(vs)))

\* index of the first non-key at a key position (0 if none), in pairs
FirstBadPair(vs) == LET bad == {i \in 1..(Len(vs) \div 2) : ~IsKey(vs[2 * i - 1])}
                    IN IF bad = {} THEN 0 ELSE CHOOSE i \in bad : \A j \in bad : i <= j

(***************************************************************************)
(* Tree form.  A path is a tuple of segments V("key", k) / V("idx", i).    *)
(***************************************************************************)
StepTF(h, cur, seg) ==
  IF cur.k # "ref" THEN Undef
  ELSE LET c == h[cur.v] IN
       IF seg.k = "key"
       THEN IF c.t = "O" /\ seg.v \in DOMAIN c.e /\ c.e[seg.v] # Absent THEN c.e[seg.v] ELSE Undef
       ELSE IF c.t = "L" /\ seg.v >= 0 /\ seg.v < Len(c.e) THEN c.e[seg.v + 1] ELSE Undef

RECURSIVE ResolveV(_, _, _)
ResolveV(h, cur, p) == IF p = <<>> THEN cur
                       ELSE LET nx == StepTF(h, cur, Head(p)) IN
                            IF nx = Undef THEN Undef ELSE ResolveV(h, nx, Tail(p))
\* GetTF / TypeOfTF: the empty path is not a path
Resolve(h, r, p) == IF p = <<>> THEN Undef ELSE ResolveV(h, Ref(r), p)

SegFits(c, seg) == (c.t = "O" /\ seg.k = "key") \/ (c.t = "L" /\ seg.k = "idx" /\ seg.v >= 0)

\* write value x (already stored) into container r at segment seg, padding lists with nil
WriteSlot(h, r, seg, x) ==
  IF seg.k = "key" THEN [h EXCEPT ![r].e[seg.v] = x]
  ELSE LET e == h[r].e IN
       IF seg.v < Len(e) THEN [h EXCEPT ![r].e[seg.v + 1] = x]
       ELSE [h EXCEPT ![r].e = Append(Pad(e, seg.v), x)]

RECURSIVE SetTFAt(_, _, _, _)
\* precondition: SegFits(h[r], p[1]) and every later segment is well formed
SetTFAt(h, r, p, v) ==
  LET seg == p[1] IN
  IF Len(p) = 1 THEN LET s == Store1(h, v) IN WriteSlot(s[1], r, seg, s[2])
  ELSE LET need == IF p[2].k = "key" THEN "O" ELSE "L"
           cur  == StepTF(h, Ref(r), seg)
       IN IF cur.k = "ref" /\ h[cur.v].t = need
          THEN SetTFAt(h, cur.v, Tail(p), v)
          ELSE LET h1 == Append(h, EmptyCell(need))
                   nr == Len(h1)
               IN SetTFAt(WriteSlot(h1, r, seg, Ref(nr)), nr, Tail(p), v)

\* number of containers SetTF allocates on the way (not counting a literal leaf)
RECURSIVE SetTFAllocs(_, _, _)
SetTFAllocs(h, cur, p) ==
  IF Len(p) <= 1 THEN 0
  ELSE LET need == IF p[2].k = "key" THEN "O" ELSE "L"
           nx   == IF cur = Undef THEN Undef ELSE StepTF(h, cur, p[1])
       IN IF nx.k = "ref" /\ h[nx.v].t = need THEN SetTFAllocs(h, nx, Tail(p))
          ELSE 1 + SetTFAllocs(h, Undef, Tail(p))

WellFormedFor(c, p) == /\ p # <<>>
                       /\ SegFits(c, p[1])
                       /\ \A i \in DOMAIN p : p[i].k \in {"key", "idx"} /\ (p[i].k = "idx" => p[i].v >= 0)
                                              /\ (p[i].k = "key" => p[i].v \in 1..NKeys)

\* remove the slot addressed by the last segment from container r
RemoveSlot(h, r, seg) ==
  IF seg.k = "key" THEN [h EXCEPT ![r].e[seg.v] = Absent]
  ELSE [h EXCEPT ![r].e = RemoveAt(h[r].e, seg.v + 1)]

(***************************************************************************)
(* Apply: the set of allowed results of operation o on heap h.             *)
(***************************************************************************)
NewRef(h) == Ref(Len(h) + 1)

ApplyList(h, o) ==
  LET r == o.r
      e == h[r].e
      n == Len(e)
      Upd(e2) == [h EXCEPT ![r].e = e2]
      Self == Ok(Ref(r))
  IN
  CASE o.op = "Add" ->
         LET s == StoreAll(h, o.vs, <<>>)
         IN {Res(Self, [s[1] EXCEPT ![r].e = e \o s[2]])}
    [] o.op = "Insert" ->
         IF o.i < 0 \/ o.i > n THEN {Res(Panic, h)}
         ELSE LET s == Store1(h, o.v)
              IN {Res(Self, [s[1] EXCEPT ![r].e = InsertAt(e, o.i + 1, s[2])])}
    [] o.op = "Replace" ->
         IF o.i < 0 \/ o.i >= n THEN {Res(Panic, h)}
         ELSE LET s == Store1(h, o.v)
              IN {Res(Self, [s[1] EXCEPT ![r].e[o.i + 1] = s[2]])}
    [] o.op = "Delete" ->
         LET I == Range(o.ks)
             valid == {i \in I : i >= 0 /\ i < n}
         IN IF I = valid THEN {Res(Self, Upd(RemoveAll(e, I)))}
            ELSE IF Cardinality(I) = 1 THEN {Res(Panic, h)}
            \* several indices, one of them invalid: panics, some of the valid ones may be gone
            ELSE {Res(Panic, Upd(RemoveAll(e, J))) : J \in SUBSET valid}
    [] o.op = "Pop" ->
         IF n = 0 THEN {Res(Panic, h)} ELSE {Res(Self, Upd(SubSeq(e, 1, n - 1)))}
    [] o.op = "Clear" -> {Res(Self, Upd(<<>>))}
    [] o.op = "Reverse" -> {Res(Self, Upd(Rev(e)))}
    [] o.op = "Sort" ->
         \* enabled only inside the domain: non-empty; first element unsortable, or homogeneous
         IF ~Sortable(e[1].k) THEN {Res(Panic, h)}
         ELSE {Res(Self, Upd(SortVals(e)))}
    [] o.op = "SortAny" ->
         \* Sort as documented for any non-empty list: the first element decides the kind, "values of other types
         \* are ignored" (they are dropped); outside C17's domain, used for C19 (the returned value is the receiver)
         IF ~Sortable(e[1].k) THEN {Res(Panic, h)}
         ELSE {Res(Self, Upd(SortVals(SelectSeq(e, LAMBDA x : x.k = e[1].k))))}
    [] o.op = "SubList" ->
         IF o.j > n \/ o.j < -n THEN {Res(Panic, h)}
         ELSE LET end == IF o.j <= 0 THEN n + o.j ELSE o.j IN
              IF o.i > end \/ o.i < 0 THEN {Res(Panic, h)}
              ELSE {Res(Ok(NewRef(h)), Append(h, Cell("L", SubSeq(e, o.i + 1, end))))}
    [] o.op = "Concat" ->
         {Res(Ok(NewRef(h)), Append(h, Cell("L", e \o h[o.j].e)))}
    [] o.op = "Slice" ->
         {Res(Ok(NewRef(h)), Append(h, Cell("GS", e)))}
    [] o.op = "FilterAll" ->   \* Filter with the constant-true predicate
         {Res(Ok(NewRef(h)), Append(h, Cell("L", e)))}
    [] o.op = "FilterHead" ->  \* Filter with a predicate that accepts the first o.i calls and rejects the rest (take-while)
         {Res(Ok(NewRef(h)), Append(h, Cell("L", SubSeq(e, 1, IF o.i < Len(e) THEN o.i ELSE Len(e)))))}
    [] o.op = "MapId" ->       \* Map with the identity function
         {Res(Ok(NewRef(h)), Append(h, Cell("L", e)))}

ApplyObject(h, o) ==
  LET r == o.r
      c == h[r]
      Self == Ok(Ref(r))
  IN
  CASE o.op = "Set" ->
         IF Len(o.vs) % 2 = 1 THEN {Res(Panic, h)}
         ELSE LET bad == FirstBadPair(o.vs) IN
              IF bad = 0 THEN {Res(Self, SetPairs(h, r, o.vs)[1])}
              \* panics at pair `bad`; any number of the earlier pairs may have been applied
              ELSE {Res(Panic, SetPairs(h, r, SubSeq(o.vs, 1, 2 * m))[1]) : m \in 0..(bad - 1)}
    [] o.op = "Unset" ->
         {Res(Self, [h EXCEPT ![r].e = [k \in DOMAIN c.e |-> IF k \in Range(o.ks) THEN Absent ELSE c.e[k]]])}
    [] o.op = "ClearO" -> {Res(Self, [h EXCEPT ![r].e = EmptyObjE])}
    [] o.op = "Keys" ->
         {Res(Ok(NewRef(h)), Append(h, Cell("L", [i \in DOMAIN p |-> V("str", p[i])]))) : p \in Perms(PresentKeys(c))}
    [] o.op = "Values" ->
         {Res(Ok(NewRef(h)), Append(h, Cell("L", [i \in DOMAIN p |-> c.e[p[i]]]))) : p \in Perms(PresentKeys(c))}
    [] o.op = "Pluck" ->
         IF \E i \in DOMAIN o.ks : o.ks[i] \notin PresentKeys(c) THEN {Res(Panic, h)}
         ELSE {Res(Ok(NewRef(h)),
                   Append(h, Cell("O", [k \in DOMAIN c.e |-> IF k \in Range(o.ks) THEN c.e[k] ELSE Absent])))}
    [] o.op = "Dict" ->
         {Res(Ok(NewRef(h)), Append(h, Cell("GM", c.e)))}
    [] o.op = "MapIdO" ->
         {Res(Ok(NewRef(h)), Append(h, Cell("O", c.e)))}
    [] o.op = "Merge" ->
         \* fresh object; argument wins on shared keys and its values are taken as they are (C06: values are held by
         \* reference, "Merge prefers the argument's value"); whether the nested containers that come from the RECEIVER
         \* are shared or deep-copied is not fixed by C06/C09 (the code copies them): both are allowed.
         LET a == h[o.j]
             Build(copyR, copyA) ==
               LET src == [k \in DOMAIN c.e |-> IF a.e[k] # Absent THEN a.e[k] ELSE c.e[k]]
                   fromA == {k \in DOMAIN c.e : a.e[k] # Absent}
                   RECURSIVE Go(_, _, _)
                   Go(hh, k, acc) ==
                     IF k > NKeys THEN <<hh, acc>>
                     ELSE LET doCopy == IF k \in fromA THEN copyA ELSE copyR
                              s == IF doCopy THEN CopyVal(hh, src[k], CloneF) ELSE <<hh, src[k]>>
                          IN Go(s[1], k + 1, Append(acc, s[2]))
                   g == Go(h, 1, <<>>)
               IN Res(Ok(Ref(Len(g[1]) + 1)), Append(g[1], Cell("O", g[2])))
         IN {Build(cr, FALSE) : cr \in BOOLEAN}

ApplyGo(h, o) ==
  LET r == o.r
      c == h[r]
  IN
  CASE o.op = "GoSet" ->       \* caller writes into a Go slice / map it holds
         IF c.t = "GS" THEN {Res(Ok(None), [h EXCEPT ![r].e[o.i + 1] = o.v])}
         ELSE {Res(Ok(None), [h EXCEPT ![r].e[o.i] = o.v])}
    [] o.op = "GoAppend" -> {Res(Ok(None), [h EXCEPT ![r].e = Append(c.e, o.v)])}
    [] o.op = "GoDelete" -> {Res(Ok(None), [h EXCEPT ![r].e[o.i] = Absent])}

ApplyTF(h, o) ==
  LET r == o.r
      p == o.vs
  IN
  CASE o.op = "SetTF" -> {Res(Ok(Ref(r)), SetTFAt(h, r, p, o.v))}
    [] o.op = "UnsetTF" ->
         LET parent == IF Len(p) = 1 THEN Ref(r) ELSE ResolveV(h, Ref(r), SubSeq(p, 1, Len(p) - 1))
             last   == p[Len(p)]
         IN IF parent.k = "ref" /\ SegFits(h[parent.v], last) /\ StepTF(h, parent, last) # Undef
            THEN {Res(Ok(Ref(r)), RemoveSlot(h, parent.v, last))}
            \* does not resolve: tree unchanged, panic or not is free
            ELSE {Res(Ok(Ref(r)), h), Res(Panic, h)}

IndexOf(c, v) == LET hit == {i \in DOMAIN c.e : c.e[i] = v}
                 IN IF hit = {} THEN -1 ELSE (CHOOSE i \in hit : \A j \in hit : i <= j) - 1
KeysOf(c, v) == {k \in DOMAIN c.e : c.e[k] = v}

Apply(h, o) ==
  CASE o.op = "NewList" ->
         LET s == StoreAll(h, o.vs, <<>>)
         IN {Res(Ok(Ref(Len(s[1]) + 1)), Append(s[1], Cell("L", s[2])))}
    [] o.op = "NewListOf" ->
         \* with count 0 the converted literal is never visible: it is not modelled
         LET s == IF o.i = 0 THEN <<h, o.v>> ELSE Store1(h, o.v)
         IN {Res(Ok(Ref(Len(s[1]) + 1)), Append(s[1], Cell("L", [i \in 1..o.i |-> s[2]])))}
    [] o.op = "NewObject" ->
         IF Len(o.vs) % 2 = 1 \/ FirstBadPair(o.vs) # 0 THEN {Res(Panic, h)}
         ELSE LET h1 == Append(h, EmptyCell("O"))
              IN {Res(Ok(Ref(Len(h1))), SetPairs(h1, Len(h1), o.vs)[1])}
    [] o.op = "NewGoSlice" ->   \* the caller builds a Go []any
         {Res(Ok(NewRef(h)), Append(h, Cell("GS", o.vs)))}
    [] o.op = "NewGoMap" ->     \* the caller builds a Go map[string]any from key/value pairs
         LET h1 == Append(h, EmptyCell("GM"))
         IN {Res(Ok(Ref(Len(h1))), SetPairs(h1, Len(h1), o.vs)[1])}
    \* observers and fluent no-ops that recorded executions exercise on large containers
    [] o.op = "Equals" -> {Res(Ok(Bool(DeepEq(h, o.r, o.j))), h)}
    [] o.op = "ForEach" -> {Res(Ok(Ref(o.r)), h)}       \* any ForEach variant (o.i) with a callback that does nothing
    \* IndexOf / Contains (lists), Contains / KeyOf (objects): first position; any key holding the value, panic if none
    [] o.op = "IndexOf" -> {Res(Ok(IntV(IndexOf(h[o.r], o.v))), h)}
    [] o.op = "Contains" -> {Res(Ok(Bool(IF h[o.r].t = "L" THEN IndexOf(h[o.r], o.v) >= 0 ELSE KeysOf(h[o.r], o.v) # {})), h)}
    [] o.op = "KeyOf" -> IF KeysOf(h[o.r], o.v) = {} THEN {Res(Panic, h)}
                         ELSE {Res(Ok(V("str", k)), h) : k \in KeysOf(h[o.r], o.v)}
    \* String() / FormatString(n): text only, the receiver is unchanged (C09); the text itself is C01/C02/C16's business
    \* the program creates and drops thousands of unrelated values (fills whatever tables the library keeps): no effect
    [] o.op = "Churn" -> {Res(Ok(V("none", 0)), h)}
    [] o.op = "Text" -> {Res(Ok(V("none", 0)), h)}
    \* GetTF(path): the value step-by-step navigation reaches, panic when the path does not resolve (C10)
    [] o.op = "GetTF" -> IF Resolve(h, o.r, o.vs) = Undef THEN {Res(Panic, h)} ELSE {Res(Ok(Resolve(h, o.r, o.vs)), h)}
    [] o.op = "NativeCheck" -> {Res(Ok(Bool(TRUE)), h)} \* Native*(r) holds no container at any depth and equals the content
    [] o.op \in {"Clone", "CloneO"} ->
         LET s == CopyVal(h, Ref(o.r), CloneF) IN {Res(Ok(s[2]), s[1])}
    [] o.op \in {"NativeSlice", "NativeDict"} ->
         LET s == CopyVal(h, Ref(o.r), NativeF) IN {Res(Ok(s[2]), s[1])}
    [] o.op \in {"NewListFrom", "NewObjectFrom"} ->
         LET s == CopyVal(h, Ref(o.r), FromF) IN {Res(Ok(s[2]), s[1])}
    [] o.op \in {"Add", "Insert", "Replace", "Delete", "Pop", "Clear", "Reverse", "Sort", "SortAny",
                 "SubList", "Concat", "Slice", "FilterAll", "FilterHead", "MapId"} -> ApplyList(h, o)
    [] o.op \in {"Set", "Unset", "ClearO", "Keys", "Values", "Pluck", "Dict", "Merge", "MapIdO"} -> ApplyObject(h, o)
    [] o.op \in {"GoSet", "GoAppend", "GoDelete"} -> ApplyGo(h, o)
    [] o.op \in {"SetTF", "UnsetTF"} -> ApplyTF(h, o)

(***************************************************************************)
(* Observers (pure functions of the heap).                                 *)
(***************************************************************************)
\* IndexOf / Contains use == on the stored value: scalars by kind and value, containers by identity

(***************************************************************************)
(* Typing.                                                                 *)
(***************************************************************************)
ScalarKinds == {"nil", "bool", "int", "float", "str"}
ValOK(h, v) == \/ v.k \in ScalarKinds
               \/ v.k = "ref" /\ v.v \in DOMAIN h
CellOK(h, c) == /\ c.t \in {"L", "O", "GS", "GM"}
                /\ c.t \in {"O", "GM"} => DOMAIN c.e = 1..NKeys
                /\ \A i \in DOMAIN c.e : ValOK(h, c.e[i]) \/ (c.t \in {"O", "GM"} /\ c.e[i] = Absent)
HeapOK(h) == \A r \in DOMAIN h : CellOK(h, h[r])
=============================================================================
