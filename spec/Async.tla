------------------------------- MODULE Async -------------------------------
(***************************************************************************)
(* The fork/join protocol of ForEachAsync / MapAsync (C15).                *)
(*                                                                         *)
(* main:    Add(N) -> Spawn(1) .. Spawn(N) -> Wait (enabled iff wg = 0)    *)
(*          -> Return                                                      *)
(* worker i (Mode = "ForEach"):  Call(i) -> Ret(i) -> Done(i)              *)
(* worker i (Mode = "Map"):      Lock(i) -> Call(i) -> Ret(i) (stores the  *)
(*          result under the lock) -> Unlock(i) -> Done(i)                 *)
(*                                                                         *)
(* Variants of the protocol with the classic mistakes are selected with    *)
(* the constant Bug; TLC must refute the invariants for each of them       *)
(* (negative configs), which shows that the properties are not vacuous.    *)
(*                                                                         *)
(* obs is a history variable: the observable events c(i) = callback i      *)
(* entered, r(i) = callback i returned, R = the API call returned.  With   *)
(* Emit = TRUE every complete behaviour's obs is printed: these are the    *)
(* schedules the harness enforces on the real goroutines.                  *)
(***************************************************************************)
EXTENDS Integers, Sequences, FiniteSets, TLC, Json

CONSTANTS N,        \* number of elements / fields
          Mode,     \* "ForEach" or "Map"
          Bug,      \* "none" | "nowait" | "addinside" | "donefirst" | "nolock" | "capture"
          Emit

VARIABLES mpc,      \* main: "add" "spawn" "wait" "returned"
          next,     \* next worker to spawn
          wpc,      \* worker state: "idle" "ready" "locked" "incall" "ret" "unlocked" "done"
          arg,      \* the index the worker's callback receives
          wg,       \* WaitGroup counter
          mu,       \* 0 = free, else the worker holding the mutex
          calls,    \* bag of callback calls: function index -> number of calls
          result,   \* Map: result slot i (0 = unset, else F(i) = i)
          obs       \* history: observable events

vars == <<mpc, next, wpc, arg, wg, mu, calls, result, obs>>
W == 1..N

Init == /\ mpc = "add" /\ next = 1
        /\ wpc = [i \in W |-> "idle"] /\ arg = [i \in W |-> i]
        /\ wg = 0 /\ mu = 0
        /\ calls = [i \in W |-> 0] /\ result = [i \in W |-> 0]
        /\ obs = <<>>

Add == /\ mpc = "add"
       /\ wg' = IF Bug = "addinside" THEN wg ELSE wg + N
       /\ mpc' = "spawn"
       /\ UNCHANGED <<next, wpc, arg, mu, calls, result, obs>>

Spawn == /\ mpc = "spawn" /\ next <= N
         /\ wpc' = [wpc EXCEPT ![next] = "ready"]
         \* the loop-variable capture mistake: the goroutine reads the shared loop variable later
         /\ arg' = IF Bug = "capture" THEN [i \in W |-> IF wpc[i] \in {"idle", "ready"} /\ i <= next THEN next ELSE arg[i]] ELSE arg
         /\ next' = next + 1
         /\ UNCHANGED <<mpc, wg, mu, calls, result, obs>>

SpawnDone == /\ mpc = "spawn" /\ next > N
             /\ mpc' = "wait"
             /\ UNCHANGED <<next, wpc, arg, wg, mu, calls, result, obs>>

Wait == /\ mpc = "wait"
        /\ (Bug = "nowait" \/ wg = 0)
        /\ mpc' = "returned"
        /\ obs' = Append(obs, <<"R", 0>>)
        /\ UNCHANGED <<next, wpc, arg, wg, mu, calls, result>>

NeedLock == Mode = "Map" /\ Bug # "nolock"

Lock(i) == /\ NeedLock /\ wpc[i] = "ready" /\ mu = 0
           /\ mu' = i /\ wpc' = [wpc EXCEPT ![i] = "locked"]
           /\ wg' = IF Bug = "addinside" THEN wg + 1 ELSE wg
           /\ UNCHANGED <<mpc, next, arg, calls, result, obs>>

Call(i) == /\ wpc[i] = IF NeedLock THEN "locked" ELSE "ready"
           /\ wpc' = [wpc EXCEPT ![i] = "incall"]
           /\ calls' = [calls EXCEPT ![arg[i]] = @ + 1]
           /\ obs' = Append(obs, <<"c", arg[i]>>)
           /\ wg' = IF Bug = "addinside" /\ ~NeedLock THEN wg + 1 ELSE IF Bug = "donefirst" THEN wg - 1 ELSE wg
           /\ UNCHANGED <<mpc, next, arg, mu, result>>

Ret(i) == /\ wpc[i] = "incall"
          /\ wpc' = [wpc EXCEPT ![i] = "ret"]
          /\ result' = IF Mode = "Map" THEN [result EXCEPT ![arg[i]] = arg[i]] ELSE result
          /\ obs' = Append(obs, <<"r", arg[i]>>)
          /\ UNCHANGED <<mpc, next, arg, wg, mu, calls>>

Unlock(i) == /\ NeedLock /\ wpc[i] = "ret" /\ mu = i
             /\ mu' = 0 /\ wpc' = [wpc EXCEPT ![i] = "unlocked"]
             /\ UNCHANGED <<mpc, next, arg, wg, calls, result, obs>>

Done(i) == /\ wpc[i] = IF NeedLock THEN "unlocked" ELSE "ret"
           /\ wpc' = [wpc EXCEPT ![i] = "done"]
           /\ wg' = IF Bug = "donefirst" THEN wg ELSE wg - 1
           /\ UNCHANGED <<mpc, next, arg, mu, calls, result, obs>>

Workers == \E i \in W : Lock(i) \/ Call(i) \/ Ret(i) \/ Unlock(i) \/ Done(i)
Main == Add \/ Spawn \/ SpawnDone \/ Wait

Finished == mpc = "returned" /\ \A i \in W : wpc[i] = "done"

Next == /\ Main \/ Workers
        /\ (Emit /\ mpc' = "returned" /\ \A i \in W : wpc'[i] = "done") =>
              PrintT(ToJson([n |-> N, mode |-> Mode, obs |-> obs']))

Spec == Init /\ [][Next]_vars /\ WF_vars(Main) /\ \A i \in W : WF_vars(Lock(i) \/ Call(i) \/ Ret(i) \/ Unlock(i) \/ Done(i))

(***************************************************************************)
(* Properties (C15).                                                       *)
(***************************************************************************)
TypeOK == /\ mpc \in {"add", "spawn", "wait", "returned"}
          /\ wg \in Int /\ mu \in 0..N

\* the call returns only after every callback has returned
ReturnAfterAll == mpc = "returned" => \A i \in W : wpc[i] \in {"ret", "unlocked", "done"}

\* never more than one call per element, and after the return exactly one
ExactlyOnce == /\ \A i \in W : calls[i] <= 1
               /\ mpc = "returned" => \A i \in W : calls[i] = 1

\* MapAsync: after the return the result holds F(i) in slot i
MapCorrect == (Mode = "Map" /\ mpc = "returned") => \A i \in W : result[i] = i

\* the mutex protects the result: at most one worker between Lock and Unlock
MutexInv == NeedLock => Cardinality({i \in W : wpc[i] \in {"locked", "incall", "ret"}}) <= 1

CounterOK == wg >= 0

\* the observable history is well formed: c(i) before r(i), R last
ObsOK == \A k \in DOMAIN obs :
            /\ obs[k][1] = "r" => \E j \in 1..(k - 1) : obs[j] = <<"c", obs[k][2]>>
            /\ obs[k][1] = "R" => k = Len(obs) \/ Bug # "none"

Termination == <>(mpc = "returned")

(***************************************************************************)
(* Refinement: hiding the protocol, the behaviours are those of the        *)
(* observable specification AsyncObs (used to validate recorded traces of  *)
(* any size).                                                              *)
(***************************************************************************)
Obs == INSTANCE AsyncObs WITH n <- N, called <- {i \in W : calls[i] > 0},
                               retd <- {i \in W : wpc[i] \in {"ret", "unlocked", "done"}},
                               returned <- (mpc = "returned")
RefinesObs == Obs!Spec
=============================================================================
