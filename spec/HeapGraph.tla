------------------------------ MODULE HeapGraph ------------------------------
(***************************************************************************)
(* Exploration of Heap.tla inside small constants.  TLC (BFS) expands      *)
(* every reachable heap once; the Next action prints, for that heap, one   *)
(* JSON line with the heap, the observation table and every enabled        *)
(* operation with its allowed results.  The Go replayer walks this graph   *)
(* on the real library.  The invariants restate what the listed            *)
(* properties need from the specification itself (R1).                     *)
(***************************************************************************)
EXTENDS Heap, Json

CONSTANTS MaxRefs,      \* bound on the number of cells
          BuildRefs,    \* constructors are explored only while fewer cells than this exist (copies may go on to MaxRefs)
          MaxLen,       \* bound on list length
          OpsOn,        \* set of operation names explored
          ArgScalars,   \* scalar values used as arguments
          ArgLits,      \* literal values (V("lit", i)) used as arguments
          ArgRefs,      \* TRUE: live containers are used as argument values (nesting / aliasing)
          IdxSlack,     \* how far outside 0..n index arguments range
          TFKeys, TFIdx, TFLen,   \* tree-form write paths: keys 1..TFKeys, indices 0..TFIdx, length <= TFLen
          TFReadLen,    \* tree-form read table: paths up to this length (0 = no table)
          TFReadKeys,   \* ... over the key tokens 1..TFReadKeys (objects may hold more keys: field names that are no path segments)
          Emit          \* TRUE: print the graph as JSON lines

VARIABLE heap
vars == <<heap>>

Z == <<>>
O0(op, r) == Op(op, r, 0, 0, None, Z, Z)

Containers(h) == {r \in DOMAIN h : h[r].t \in {"L", "O"}}
ListsOf(h)    == {r \in DOMAIN h : h[r].t = "L"}
ObjsOf(h)     == {r \in DOMAIN h : h[r].t = "O"}
GoOf(h)       == {r \in DOMAIN h : h[r].t \in {"GS", "GM"}}

RefVals(h) == IF ArgRefs THEN {Ref(x) : x \in Containers(h)} ELSE {}
SV(h) == ArgScalars \cup RefVals(h) \cup ArgLits
K(k) == V("str", k)
OneScalar == CHOOSE v \in ArgScalars : TRUE

Idx(n) == (0 - IdxSlack)..(n + IdxSlack)

ListCands(h, r) ==
  LET n == Len(h[r].e) IN
     (IF "Add" \in OpsOn THEN {Op("Add", r, 0, 0, None, <<v>>, Z) : v \in SV(h)} ELSE {})
  \cup (IF "Add2" \in OpsOn THEN {Op("Add", r, 0, 0, None, <<v, w>>, Z) : v \in ArgScalars \cup ArgLits, w \in SV(h)} ELSE {})
  \cup (IF "Add0" \in OpsOn THEN {Op("Add", r, 0, 0, None, Z, Z)} ELSE {})
  \cup (IF "Insert" \in OpsOn THEN {Op("Insert", r, i, 0, v, Z, Z) : i \in 0..n, v \in SV(h)}
                                   \cup {Op("Insert", r, i, 0, OneScalar, Z, Z) : i \in Idx(n) \ (0..n)} ELSE {})
  \cup (IF "Replace" \in OpsOn THEN {Op("Replace", r, i, 0, v, Z, Z) : i \in 0..(n - 1), v \in SV(h)}
                                   \cup {Op("Replace", r, i, 0, OneScalar, Z, Z) : i \in Idx(n) \ (0..(n - 1))} ELSE {})
  \cup (IF "Delete" \in OpsOn THEN {Op("Delete", r, 0, 0, None, Z, <<i>>) : i \in (0 - IdxSlack)..(n - 1 + IdxSlack)} ELSE {})
  \cup (IF "Delete2" \in OpsOn THEN {Op("Delete", r, 0, 0, None, Z, ij) :
                                       ij \in {x \in ((0 - 1)..n) \X ((0 - 1)..n) : x[1] # x[2]}} ELSE {})
  \cup (IF "Delete0" \in OpsOn THEN {Op("Delete", r, 0, 0, None, Z, Z)} ELSE {})
  \cup (IF "Pop" \in OpsOn THEN {O0("Pop", r)} ELSE {})
  \cup (IF "Clear" \in OpsOn THEN {O0("Clear", r)} ELSE {})
  \cup (IF "Reverse" \in OpsOn THEN {O0("Reverse", r)} ELSE {})
  \cup (IF "Sort" \in OpsOn /\ n >= 1 /\ (~Sortable(h[r].e[1].k) \/ Homogeneous(h[r].e)) THEN {O0("Sort", r)} ELSE {})
  \cup (IF "SortAny" \in OpsOn /\ n >= 1 THEN {O0("SortAny", r)} ELSE {})
  \cup (IF "SubList" \in OpsOn THEN {Op("SubList", r, i, j, None, Z, Z) : i \in Idx(n), j \in (0 - n - IdxSlack)..(n + IdxSlack)} ELSE {})
  \cup (IF "Concat" \in OpsOn THEN {Op("Concat", r, 0, j, None, Z, Z) : j \in ListsOf(h)} ELSE {})
  \cup (IF "Clone" \in OpsOn THEN {O0("Clone", r)} ELSE {})
  \cup (IF "Slice" \in OpsOn THEN {O0("Slice", r)} ELSE {})
  \cup (IF "NativeSlice" \in OpsOn THEN {O0("NativeSlice", r)} ELSE {})
  \cup (IF "FilterAll" \in OpsOn THEN {O0("FilterAll", r)} ELSE {})
  \cup (IF "MapId" \in OpsOn THEN {O0("MapId", r)} ELSE {})

ObjCands(h, r) ==
     (IF "Set" \in OpsOn THEN {Op("Set", r, 0, 0, None, <<K(k), v>>, Z) : k \in 1..NKeys, v \in SV(h)} ELSE {})
  \cup (IF "Set2" \in OpsOn THEN
          {Op("Set", r, 0, 0, None, <<K(k1), v1, K(k2), v2>>, Z) : k1 \in 1..NKeys, k2 \in 1..NKeys, v1 \in ArgScalars, v2 \in ArgScalars}
          \cup {Op("Set", r, 0, 0, None, <<K(1)>>, Z),
                Op("Set", r, 0, 0, None, <<K(1), OneScalar, K(2)>>, Z),
                Op("Set", r, 0, 0, None, <<IntV(1), OneScalar>>, Z),
                Op("Set", r, 0, 0, None, <<K(NKeys), OneScalar, Nil, OneScalar>>, Z),
                Op("Set", r, 0, 0, None, Z, Z)}
        ELSE {})
  \cup (IF "Unset" \in OpsOn THEN {Op("Unset", r, 0, 0, None, Z, <<k>>) : k \in 1..NKeys} ELSE {})
  \cup (IF "Unset2" \in OpsOn THEN {Op("Unset", r, 0, 0, None, Z, <<k1, k2>>) : k1 \in 1..NKeys, k2 \in 1..NKeys}
                                   \cup {Op("Unset", r, 0, 0, None, Z, Z)} ELSE {})
  \cup (IF "ClearO" \in OpsOn THEN {O0("ClearO", r)} ELSE {})
  \cup (IF "Keys" \in OpsOn THEN {O0("Keys", r)} ELSE {})
  \cup (IF "Values" \in OpsOn THEN {O0("Values", r)} ELSE {})
  \cup (IF "Pluck" \in OpsOn THEN {Op("Pluck", r, 0, 0, None, Z, ks) : ks \in {Z} \cup {<<k>> : k \in 1..NKeys}
                                       \cup {<<k1, k2>> : k1 \in 1..NKeys, k2 \in 1..NKeys}} ELSE {})
  \cup (IF "Dict" \in OpsOn THEN {O0("Dict", r)} ELSE {})
  \cup (IF "NativeDict" \in OpsOn THEN {O0("NativeDict", r)} ELSE {})
  \cup (IF "MapIdO" \in OpsOn THEN {O0("MapIdO", r)} ELSE {})
  \cup (IF "CloneO" \in OpsOn THEN {O0("CloneO", r)} ELSE {})
  \cup (IF "Merge" \in OpsOn THEN {Op("Merge", r, 0, j, None, Z, Z) : j \in ObjsOf(h)} ELSE {})

Segs == {V("key", k) : k \in 1..TFKeys} \cup {V("idx", i) : i \in 0..TFIdx}
RECURSIVE PathsN(_)
PathsN(n) == IF n = 0 THEN {Z} ELSE {Append(p, s) : p \in PathsN(n - 1), s \in Segs}
WritePaths == UNION {PathsN(n) : n \in 1..TFLen}

TFCands(h, r) ==
     (IF "SetTF" \in OpsOn THEN {Op("SetTF", r, 0, 0, v, p, Z) : v \in SV(h), p \in {q \in WritePaths : WellFormedFor(h[r], q)}} ELSE {})
  \cup (IF "UnsetTF" \in OpsOn THEN {Op("UnsetTF", r, 0, 0, None, p, Z) : p \in {q \in WritePaths : WellFormedFor(h[r], q)}} ELSE {})

GoCands(h, g) ==
  LET c == h[g] IN
     (IF "GoSet" \in OpsOn THEN
        (IF c.t = "GS" THEN {Op("GoSet", g, i, 0, v, Z, Z) : i \in 0..(Len(c.e) - 1), v \in ArgScalars \cup RefVals(h)}
                       ELSE {Op("GoSet", g, k, 0, v, Z, Z) : k \in 1..NKeys, v \in ArgScalars \cup RefVals(h)}) ELSE {})
  \* append re-slices: only a slice that no other Go value holds (the holder would keep the old header)
  \cup (IF "GoAppend" \in OpsOn /\ c.t = "GS" /\ g \notin UNION {CellRefs(h[x]) : x \in DOMAIN h} THEN {Op("GoAppend", g, 0, 0, v, Z, Z) : v \in ArgScalars} ELSE {})
  \cup (IF "GoDelete" \in OpsOn /\ c.t = "GM" THEN {Op("GoDelete", g, k, 0, None, Z, Z) : k \in 1..NKeys} ELSE {})
  \cup (IF "NewListFrom" \in OpsOn /\ c.t = "GS" THEN {O0("NewListFrom", g)} ELSE {})
  \cup (IF "NewObjectFrom" \in OpsOn /\ c.t = "GM" THEN {O0("NewObjectFrom", g)} ELSE {})

GoVals(h) == ArgScalars \cup {Ref(x) : x \in DOMAIN h}
CtorCands(h) ==
     (IF "NewList" \in OpsOn THEN {Op("NewList", 0, 0, 0, None, vs, Z) : vs \in {Z} \cup {<<v>> : v \in SV(h)}} ELSE {})
  \cup (IF "NewList2" \in OpsOn THEN {Op("NewList", 0, 0, 0, None, <<v, w>>, Z) : v \in ArgScalars, w \in SV(h)} ELSE {})
  \cup (IF "NewListRR" \in OpsOn THEN {Op("NewList", 0, 0, 0, None, <<v, w>>, Z) : v \in RefVals(h), w \in RefVals(h)} ELSE {})
  \cup (IF "NewList3" \in OpsOn THEN {Op("NewList", 0, 0, 0, None, <<u, v, w>>, Z) : u \in ArgScalars, v \in ArgScalars, w \in ArgScalars} ELSE {})
  \cup (IF "NewListOf" \in OpsOn THEN {Op("NewListOf", 0, n, 0, v, Z, Z) : n \in 0..MaxLen, v \in SV(h)} ELSE {})
  \cup (IF "NewObject" \in OpsOn THEN {Op("NewObject", 0, 0, 0, None, vs, Z) : vs \in {Z} \cup {<<K(k), v>> : k \in 1..NKeys, v \in SV(h)}} ELSE {})
  \cup (IF "NewObject2" \in OpsOn THEN
          {Op("NewObject", 0, 0, 0, None, <<K(k1), v1, K(k2), v2>>, Z) : k1 \in 1..NKeys, k2 \in 1..NKeys, v1 \in ArgScalars, v2 \in ArgScalars}
          \cup {Op("NewObject", 0, 0, 0, None, <<K(1)>>, Z), Op("NewObject", 0, 0, 0, None, <<IntV(1), OneScalar>>, Z)} ELSE {})
  \cup (IF "NewGoSlice" \in OpsOn THEN {Op("NewGoSlice", 0, 0, 0, None, vs, Z) : vs \in {Z} \cup {<<v>> : v \in GoVals(h)}
                                           \cup {<<v, w>> : v \in ArgScalars, w \in GoVals(h)}} ELSE {})
  \cup (IF "NewGoMap" \in OpsOn THEN {Op("NewGoMap", 0, 0, 0, None, vs, Z) : vs \in {Z} \cup {<<K(k), v>> : k \in 1..NKeys, v \in GoVals(h)}} ELSE {})

Cands(h) == (IF Len(h) < BuildRefs THEN CtorCands(h) ELSE {})
            \cup UNION {ListCands(h, r) \cup TFCands(h, r) : r \in ListsOf(h)}
            \cup UNION {ObjCands(h, r) \cup TFCands(h, r) : r \in ObjsOf(h)}
            \cup UNION {GoCands(h, g) : g \in GoOf(h)}

Bounded(h) == /\ Len(h) <= MaxRefs
              /\ \A r \in DOMAIN h : IsList(h[r]) => Len(h[r].e) <= MaxLen

\* an operation is explored only if every allowed result stays inside the bounds and acyclic
EdgesOf(h, o) == LET R == Apply(h, o) IN
                 IF \A res \in R : Bounded(res.heap) /\ Acyclic(res.heap) /\ Layered(res.heap)
                 THEN {[o |-> o, out |-> res.out, ch |-> (res.heap # h), to |-> IF res.heap = h THEN Z ELSE res.heap] : res \in R}
                 ELSE {}

AllEdges(h) == UNION {EdgesOf(h, o) : o \in Cands(h)}

(***************************************************************************)
(* Observation table of a state.                                           *)
(***************************************************************************)
ObsVals(h) == ArgScalars \cup RefVals(h) \cup {Nil}
ReadSegs == {V("key", k) : k \in 1..TFReadKeys} \cup {V("idx", i) : i \in 0..MaxLen}
RECURSIVE ReadPathsN(_)
ReadPathsN(n) == IF n = 0 THEN {Z} ELSE {Append(p, s) : p \in ReadPathsN(n - 1), s \in ReadSegs}
ReadPaths == UNION {ReadPathsN(n) : n \in 1..TFReadLen}

Obs(h) ==
  [eq |-> {<<a, b>> \in Containers(h) \X Containers(h) : a < b /\ DeepEq(h, a, b)},
   io |-> {[r |-> r, v |-> v, i |-> IndexOf(h[r], v)] : r \in ListsOf(h), v \in ObsVals(h)},
   ko |-> {[r |-> r, v |-> v, ks |-> KeysOf(h[r], v)] : r \in ObjsOf(h), v \in ObsVals(h)},
   tf |-> IF TFReadLen = 0 THEN {}
          ELSE UNION {{[r |-> r, p |-> p, v |-> Resolve(h, r, p)] :
                         p \in {q \in ReadPaths : Resolve(h, r, q) # Undef}} : r \in Containers(h)}]

(***************************************************************************)
(* Behaviour.                                                              *)
(***************************************************************************)
Init == heap = <<>>

\* compact JSON encoding: value = [kind, v]; cell = [tag, [values]]; op = [op, r, i, j, v, vs, ks];
\* edge = [op, panicked, ret, to-heap ([] = unchanged)]
JVal(v)   == <<v.k, v.v>>
JVals(vs) == [i \in DOMAIN vs |-> JVal(vs[i])]
JCell(c)  == <<c.t, JVals(c.e)>>
JHeap(h)  == [r \in DOMAIN h |-> JCell(h[r])]
JOp(o)    == <<o.op, o.r, o.i, o.j, JVal(o.v), JVals(o.vs), o.ks>>
JEdge(ed) == <<JOp(ed.o), ed.out.p, JVal(ed.out.ret), JHeap(ed.to)>>
JObs(ob)  == [eq |-> ob.eq,
              io |-> {<<x.r, JVal(x.v), x.i>> : x \in ob.io},
              ko |-> {<<x.r, JVal(x.v), x.ks>> : x \in ob.ko},
              tf |-> {<<x.r, JVals(x.p), JVal(x.v)>> : x \in ob.tf}]

Next == LET E == AllEdges(heap) IN
        /\ Emit => PrintT(ToJson([s |-> JHeap(heap), obs |-> JObs(Obs(heap)), edges |-> {JEdge(ed) : ed \in E}]))
        /\ \E ed \in E : heap' = IF ed.ch THEN ed.to ELSE heap

Spec == Init /\ [][Next]_vars

(***************************************************************************)
(* R1: what the properties need from the specification.                    *)
(***************************************************************************)
TypeOK      == HeapOK(heap)
AcyclicInv  == Acyclic(heap) /\ NoDangling(heap) /\ Layered(heap)

\* C07: DeepEq is an equivalence and coincides with equality of unfolded trees
EqualsInv ==
  \A a, b \in Containers(heap) :
     /\ DeepEq(heap, a, a)
     /\ DeepEq(heap, a, b) = DeepEq(heap, b, a)
     /\ DeepEq(heap, a, b) = (Unfold(heap, Ref(a)) = Unfold(heap, Ref(b)))
     /\ \A c \in Containers(heap) : DeepEq(heap, a, b) /\ DeepEq(heap, b, c) => DeepEq(heap, a, c)

\* C10: Resolve is the left fold of single steps, TypeOfTF is total
ResolveInv ==
  TFReadLen > 0 =>
    \A r \in Containers(heap) : \A p \in ReadPaths :
       LET v == Resolve(heap, r, p) IN
       /\ Len(p) >= 2 => (v = IF Resolve(heap, r, SubSeq(p, 1, Len(p) - 1)) = Undef THEN Undef
                              ELSE StepTF(heap, Resolve(heap, r, SubSeq(p, 1, Len(p) - 1)), p[Len(p)]))
       /\ v = Undef \/ ValOK(heap, v)

(***************************************************************************)
(* Action properties (checked on every explored edge through StepOK).      *)
(***************************************************************************)
Mutators == {"Add", "Insert", "Replace", "Delete", "Pop", "Clear", "Reverse", "Sort", "SortAny",
             "Set", "Unset", "ClearO", "SetTF", "UnsetTF", "GoSet", "GoAppend", "GoDelete"}
Derivers == {"NewList", "NewListOf", "NewObject", "NewGoSlice", "NewGoMap", "Clone", "CloneO", "NativeSlice",
             "NativeDict", "NewListFrom", "NewObjectFrom", "SubList", "Concat", "Slice", "FilterAll",
             "MapId", "Keys", "Values", "Pluck", "Dict", "MapIdO", "Merge"}

OldUnchanged(h, h2) == Len(h2) >= Len(h) /\ \A r \in DOMAIN h : h2[r] = h[r]

\* cells reachable from the result of a deep copy are all fresh, and none of them is reachable from old cells
FreshBelow(h, h2, nr) == Reach(h2, nr) \cap (DOMAIN h) = {}

EdgeOK(h, ed) ==
  LET o == ed.o
      h2 == IF ed.ch THEN ed.to ELSE h
  IN
  /\ HeapOK(h2)
  \* a panicking single-argument list operation leaves everything unchanged (C05)
  /\ (ed.out.p /\ o.op \in {"Insert", "Replace", "Pop", "SubList", "Pluck", "Sort", "SortAny"}) => h2 = h
  /\ (ed.out.p /\ o.op = "Delete" /\ Len(o.ks) = 1) => h2 = h
  \* derivations leave every old cell unchanged and return a fresh reference (C09)
  /\ (o.op \in Derivers /\ ~ed.out.p) =>
        /\ OldUnchanged(h, h2)
        /\ ed.out.ret.k = "ref" /\ ed.out.ret.v > Len(h) /\ ed.out.ret.v <= Len(h2)
  \* deep copies share nothing with the old heap and are structurally equal (C08, C13)
  /\ (o.op \in {"Clone", "CloneO"}) =>
        /\ FreshBelow(h, h2, ed.out.ret.v)
        /\ DeepEq(h2, o.r, ed.out.ret.v)
  /\ (o.op \in {"NativeSlice", "NativeDict"}) =>
        /\ FreshBelow(h, h2, ed.out.ret.v)
        /\ \A x \in Reach(h2, ed.out.ret.v) : h2[x].t \in {"GS", "GM"}
  /\ (o.op \in {"NewListFrom", "NewObjectFrom"}) =>
        \A x \in Reach(h2, ed.out.ret.v) : h2[x].t \in {"L", "O"}
  \* mutators keep identity, touch only the receiver (and fresh cells), and return the receiver (C05, C06, C19)
  /\ (o.op \in Mutators \ {"SetTF", "UnsetTF", "GoSet", "GoAppend", "GoDelete"}) =>
        /\ \A r \in DOMAIN h : r # o.r => h2[r] = h[r]
        /\ ~ed.out.p => ed.out.ret = Ref(o.r)
  \* tree-form writes: read-back, and only cells on the path change (C11)
  /\ (o.op = "SetTF") =>
        /\ LET got == Resolve(h2, o.r, o.vs) IN
             IF o.v.k = "lit" THEN got.k = "ref" /\ got.v > Len(h) /\ h2[got.v] = Lits[o.v.v] ELSE got = o.v
        /\ \A r \in DOMAIN h : h2[r] # h[r] =>
              \E n \in 0..(Len(o.vs) - 1) : (IF n = 0 THEN Ref(o.r) ELSE Resolve(h2, o.r, SubSeq(o.vs, 1, n))) = Ref(r)
  /\ (o.op = "UnsetTF") =>
        Cardinality({r \in DOMAIN h : h2[r] # h[r]}) <= 1

StepOK == \A ed \in AllEdges(heap) : EdgeOK(heap, ed)

\* algebraic cross-checks of the specification itself
AlgebraInv ==
  \A r \in ListsOf(heap) :
    LET e == heap[r].e IN
    /\ Rev(Rev(e)) = e
    /\ (e # <<>> /\ Homogeneous(e) /\ Sortable(e[1].k)) =>
          LET s == SortVals(e) IN IsSortedSeq(s) /\ SameBag(s, e) /\ SortVals(s) = s
    /\ \A v \in ObsVals(heap) : (IndexOf(heap[r], v) >= 0) = (v \in Range(e))
    /\ \A i \in 0..Len(e) : RemoveAt(InsertAt(e, i + 1, Nil), i + 1) = e
    /\ RemoveAll(e, {}) = e
=============================================================================
