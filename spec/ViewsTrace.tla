----------------------------- MODULE ViewsTrace -----------------------------
(***************************************************************************)
(* Trace validation for the per-container functions (C14 C17 C18): the     *)
(* harness runs the typed views, Sort/Reverse and the aggregates of the    *)
(* real library on LARGE lists (sizes around powers of two up to several   *)
(* thousand elements, sorted-but-one shapes, boundary values) that the     *)
(* exhaustive enumeration of Views.tla cannot reach, abstracts inputs and  *)
(* results back to tokens and logs one event per list.  TLC evaluates the  *)
(* operators of Views.tla on the logged list and must find exactly the     *)
(* logged results.                                                         *)
(***************************************************************************)
EXTENDS Views

CONSTANT TraceFile
Trace == ndJsonDeserialize(TraceFile)

VARIABLE l
tvars == <<seq, l>>

DTok(x) == <<x[1], x[2]>>
DList(xs) == [i \in DOMAIN xs |-> DTok(xs[i])]
DSel(xs) == [i \in DOMAIN xs |-> <<xs[i][1], DTok(xs[i][2])>>]

Matches(s, e) ==
  /\ \A X \in Kinds : LET v == SelectKind(s, X) IN [j \in DOMAIN v |-> v[j][2]] = DList(e.selv[X])
  /\ {X \in Kinds : AllOf(s, X)} = {e.all[i] : i \in DOMAIN e.all}
  /\ AllNumeric(s) = e.allNumeric
  /\ Rev(s) = DList(e.rev)
  /\ InSortDomain(s) = e.sortDomain
  /\ (InSortDomain(s) => SortVals(s) = DList(e.sorted))
  \* products of long lists leave TLC's integer range: not compared here
  /\ IntSumOver(s, IntIdx(s)) = e.agg.isum /\ IMinOver(s, IntIdx(s)) = e.agg.imin /\ IMaxOver(s, IntIdx(s)) = e.agg.imax
  /\ (AllNumeric(s) => /\ Sum4Over(s, NumIdx(s)) = e.agg.sum4
                        /\ Min4Over(s, NumIdx(s)) = e.agg.min4
                        /\ Max4Over(s, NumIdx(s)) = e.agg.max4)

TraceInit == seq = <<>> /\ l = 1 /\ TLCSet(1, 1)
TraceNext == /\ l <= Len(Trace)
             /\ LET e == Trace[l] s == DList(e.list) IN seq' = s /\ Matches(s, e)
             /\ l' = l + 1
TraceSpec == TraceInit /\ [][TraceNext]_tvars

Mark == TLCSet(1, IF l > TLCGet(1) THEN l ELSE TLCGet(1))
TraceAccepted == TLCGet(1) = Len(Trace) + 1
=============================================================================
