------------------------------ MODULE ParserSM ------------------------------
(***************************************************************************)
(* The JSON parser AS IMPLEMENTED (parser.go): the two mutually recursive  *)
(* state machines parseList / parseObject with their ten control states,   *)
(* the inVal flag, the value buffer (abstracted to empty / valid literal / *)
(* invalid literal) and the shared line counter, over an alphabet of       *)
(* character classes.  This specification is implementation-shaped: it     *)
(* never decides a property.  It is used                                   *)
(*  (R1) in lock-step with a character-level reference recogniser Ref of   *)
(*       RFC 8259 (below): on every viable prefix of a valid document the  *)
(*       lenient machine has not failed, and it accepts exactly when Ref   *)
(*       accepts, with the same tree (C03 for the algorithm); success only *)
(*       at the root's closing bracket, end of input and ill-formed bytes  *)
(*       are always errors, every step consumes one character (C04); a     *)
(*       cited line is 1 + the newlines consumed so far (C20);             *)
(*  (R2) as a generator: TLC prints every input up to MaxLen with the      *)
(*       machine's state sequence, outcome and line; the harness runs the  *)
(*       real parser with the verifStep hook and reports any difference as *)
(*       SPEC-DRIFT (the parser was refactored), never as a violation.     *)
(***************************************************************************)
EXTENDS Integers, Sequences, FiniteSets, TLC, Json

CONSTANTS MaxLen,      \* inputs up to this many characters (after the root bracket is included)
          MaxDepth,    \* nesting bound for exploration
          Classes,     \* character classes explored
          Roots,       \* subset of {"[", "{"}
          Emit

\* character classes: "{" "}" "[" "]" "," ":" "q" (quote) "b" (backslash) "s" (blank) "n" (newline)
\* "d" (digit: extends a valid literal) "x" (any other character) "i" (ill-formed byte)

VARIABLES input,     \* characters consumed so far (history, for emission)
          stack,     \* machine frames, innermost last: [m, st, inVal, val, items, key]
          line,      \* the shared line counter
          outcome,   \* "run" | "ok" | error kind
          trace,     \* sequence of <<machine, state>> before each consumed character (what the hook reports)
          ref,       \* the reference recogniser's configuration
          result     \* <<>> or <<tree>> once the root machine has returned

vars == <<input, stack, line, outcome, trace, ref, result>>

StStart == 0  StKeyStart == 1  StKey == 2  StKeyEscape == 3  StAfterKey == 4
StVal == 5    StAfterVal == 6  StValEscape == 7  StValString == 8  StValAfterString == 9

Frame(m, st, inVal, val, items, key) == [m |-> m, st |-> st, inVal |-> inVal, val |-> val, items |-> items, key |-> key]
Top == stack[Len(stack)]
SetTop(f) == [stack EXCEPT ![Len(stack)] = f]
IsSpace(c) == c \in {"s", "n"}

\* value buffer classes: "e" empty, "ok" a valid literal, "bad" an invalid one
Extend(v, c) == IF c = "d" THEN (IF v = "bad" THEN "bad" ELSE "ok") ELSE "bad"

\* a finished container is handed to the frame below (or becomes the result)
Deliver(st, v) ==
  LET rest == SubSeq(st, 1, Len(st) - 1) IN
  IF rest = <<>> THEN <<>>
  ELSE LET f == rest[Len(rest)] IN
       IF f.m = "L" THEN [rest EXCEPT ![Len(rest)] = Frame("L", StVal, FALSE, f.val, Append(f.items, v), "")]
       ELSE [rest EXCEPT ![Len(rest)] = Frame("O", StAfterVal, f.inVal, f.val, Append(f.items, <<"k", v>>), "")]

(***************************************************************************)
(* One character through the implemented machine.  Result:                 *)
(* [stack, outcome, tree] where tree is set when the root returns.         *)
(***************************************************************************)
R(st, out) == [stack |-> st, outcome |-> out, tree |-> <<>>]
\* the innermost machine returns value v: to the frame below, or as the result of the whole parse
Ret(v) == [stack |-> Deliver(stack, v), outcome |-> IF Len(stack) = 1 THEN "ok" ELSE "run", tree |-> IF Len(stack) = 1 THEN <<v>> ELSE <<>>]

StepList(c) ==
  LET f == Top IN
  CASE f.st = StStart -> R(SetTop(Frame("L", StVal, FALSE, "e", <<>>, "")), "run")
    [] f.st = StVal ->
         IF IsSpace(c) THEN R(stack, "run")
         ELSE IF ~f.inVal /\ c = "q" THEN R(SetTop([f EXCEPT !.st = StValString]), "run")
         ELSE IF ~f.inVal /\ c = "{" THEN R(Append(stack, Frame("O", StKeyStart, FALSE, "e", <<>>, "")), "run")
         ELSE IF ~f.inVal /\ c = "[" THEN R(Append(stack, Frame("L", StVal, FALSE, "e", <<>>, "")), "run")
         ELSE IF c \in {",", "]"} THEN
              IF f.val = "bad" THEN R(stack, "invalid")
              ELSE LET items == IF f.val = "ok" THEN Append(f.items, "n") ELSE f.items
                       g == Frame("L", StVal, IF f.val = "ok" THEN FALSE ELSE f.inVal, "e", items, "")
                   IN IF c = "]" THEN Ret(<<"L", items>>)
                      ELSE R(SetTop(g), "run")
         ELSE R(SetTop([f EXCEPT !.val = Extend(f.val, c), !.inVal = TRUE]), "run")
    [] f.st = StValString ->
         IF c = "b" THEN R(SetTop([f EXCEPT !.st = StValEscape]), "run")
         ELSE IF c = "q" THEN R(SetTop([f EXCEPT !.st = StValAfterString, !.items = Append(f.items, "s"), !.val = "e"]), "run")
         ELSE R(stack, "run")
    [] f.st = StValEscape -> R(SetTop([f EXCEPT !.st = StValString]), "run")
    [] f.st = StValAfterString ->
         IF c = "," THEN R(SetTop([f EXCEPT !.st = StVal]), "run")
         ELSE IF c = "]" THEN Ret(<<"L", f.items>>)
         ELSE R(stack, "run")

StepObject(c) ==
  LET f == Top IN
  CASE f.st = StStart -> R(SetTop(Frame("O", StKeyStart, FALSE, "e", <<>>, "")), "run")
    [] f.st = StKeyStart ->
         IF IsSpace(c) THEN R(stack, "run")
         ELSE IF c = "}" THEN Ret(<<"O", f.items>>)
         ELSE IF c = "q" THEN R(SetTop([f EXCEPT !.st = StKey]), "run")
         ELSE R(stack, "expectQuote")
    [] f.st = StKey ->
         IF c = "q" THEN R(SetTop([f EXCEPT !.st = StAfterKey]), "run")
         ELSE IF c = "b" THEN R(SetTop([f EXCEPT !.st = StKeyEscape]), "run")
         ELSE R(stack, "run")
    [] f.st = StKeyEscape -> R(SetTop([f EXCEPT !.st = StKey]), "run")
    [] f.st = StAfterKey ->
         IF IsSpace(c) THEN R(stack, "run")
         ELSE IF c # ":" THEN R(stack, "expectColon")
         ELSE R(SetTop([f EXCEPT !.st = StVal, !.val = "e", !.inVal = FALSE]), "run")
    [] f.st = StVal ->
         IF IsSpace(c) THEN R(stack, "run")
         ELSE IF ~f.inVal /\ c = "q" THEN R(SetTop([f EXCEPT !.st = StValString]), "run")
         ELSE IF ~f.inVal /\ c = "{" THEN R(Append(stack, Frame("O", StKeyStart, FALSE, "e", <<>>, "")), "run")
         ELSE IF ~f.inVal /\ c = "[" THEN R(Append(stack, Frame("L", StVal, FALSE, "e", <<>>, "")), "run")
         ELSE IF c \in {",", "}"} THEN
              IF f.val = "bad" THEN R(stack, "invalid")
              ELSE LET items == IF f.val = "ok" THEN Append(f.items, <<"k", "n">>) ELSE f.items IN
                   IF c = "," THEN R(SetTop([f EXCEPT !.st = StKeyStart, !.items = items]), "run")
                   ELSE Ret(<<"O", items>>)
         ELSE R(SetTop([f EXCEPT !.val = Extend(f.val, c), !.inVal = TRUE]), "run")
    [] f.st = StAfterVal ->
         IF IsSpace(c) THEN R(stack, "run")
         ELSE IF c = "," THEN R(SetTop([f EXCEPT !.st = StKeyStart]), "run")
         ELSE IF c = "}" THEN Ret(<<"O", f.items>>)
         ELSE IF c = "q" THEN R(SetTop([f EXCEPT !.st = StKey]), "run")
         ELSE R(stack, "expectCommaBrace")
    [] f.st = StValString ->
         IF c = "b" THEN R(SetTop([f EXCEPT !.st = StValEscape]), "run")
         ELSE IF c = "q" THEN R(SetTop([f EXCEPT !.st = StValAfterString, !.items = Append(f.items, <<"k", "s">>)]), "run")
         ELSE R(stack, "run")
    [] f.st = StValEscape -> R(SetTop([f EXCEPT !.st = StValString]), "run")
    [] f.st = StValAfterString ->
         IF c = "," THEN R(SetTop([f EXCEPT !.st = StKeyStart]), "run")
         ELSE IF c = "}" THEN Ret(<<"O", f.items>>)
         ELSE R(stack, "run")

\* the tree of the root when it returns: remembered in a one-frame "done" stack
Machine(c) ==
  IF c = "i" THEN R(stack, "ill")
  ELSE IF Top.m = "L" THEN StepList(c) ELSE StepObject(c)

(***************************************************************************)
(* Ref: character-level reference recogniser of RFC 8259 (array / object   *)
(* root).  Configuration: [st, stack, bad]; st is what may come next.      *)
(***************************************************************************)
\* frames: <<"L"|"O", items>>; st: "v|]" "v" ",|]" "k|}" "k" ":" ",|}" "str" "esc" "key" "kesc" "num" "done"
RefInit(root) == [st |-> IF root = "[" THEN "v|]" ELSE "k|}", stack |-> << <<IF root = "[" THEN "L" ELSE "O", <<>>>> >>, dead |-> FALSE, tree |-> <<>>]

RTop(r) == r.stack[Len(r.stack)]
RPut(r, v) == \* value v completes in the innermost container
  LET t == RTop(r)
      nt == IF t[1] = "L" THEN <<"L", Append(t[2], v)>> ELSE <<"O", Append(t[2], <<"k", v>>)>>
  IN [r EXCEPT !.stack = [r.stack EXCEPT ![Len(r.stack)] = nt], !.st = IF t[1] = "L" THEN ",|]" ELSE ",|}"]
RClose(r) ==
  LET t == RTop(r)
      rest == SubSeq(r.stack, 1, Len(r.stack) - 1)
  IN IF rest = <<>> THEN [r EXCEPT !.stack = <<>>, !.st = "done", !.tree = <<t>>]
     ELSE RPut([r EXCEPT !.stack = rest], t)
Dead(r) == [r EXCEPT !.dead = TRUE]

RECURSIVE RStep(_, _)
RStep(r, c) ==
  IF r.dead \/ r.st = "done" THEN r   \* after the root closed the parser stops reading: Ref stays
  ELSE CASE r.st \in {"str", "key"} ->
              IF c = "q" THEN (IF r.st = "str" THEN RPut(r, "s") ELSE [r EXCEPT !.st = ":"])
              ELSE IF c = "b" THEN [r EXCEPT !.st = IF r.st = "str" THEN "esc" ELSE "kesc"]
              ELSE IF c \in {"n", "i"} THEN Dead(r)     \* raw control characters / ill-formed bytes are not allowed in strings
              ELSE r
         [] r.st = "esc"  -> IF c \in {"q", "b", "x"} THEN [r EXCEPT !.st = "str"] ELSE Dead(r)   \* \" \\ and (class x) \n-like escapes
         [] r.st = "kesc" -> IF c \in {"q", "b", "x"} THEN [r EXCEPT !.st = "key"] ELSE Dead(r)
         [] r.st = "num" ->
              IF c = "d" THEN r
              ELSE LET r2 == RPut(r, "n") IN RStep(r2, c)   \* the literal ended: the character belongs to what follows
         [] OTHER ->
              IF IsSpace(c) THEN r
              ELSE CASE r.st \in {"v|]", "v"} ->
                          IF c = "q" THEN [r EXCEPT !.st = "str"]
                          ELSE IF c = "d" THEN [r EXCEPT !.st = "num"]
                          ELSE IF c = "[" THEN [r EXCEPT !.stack = Append(r.stack, <<"L", <<>>>>), !.st = "v|]"]
                          ELSE IF c = "{" THEN [r EXCEPT !.stack = Append(r.stack, <<"O", <<>>>>), !.st = "k|}"]
                          ELSE IF c = "]" /\ r.st = "v|]" THEN RClose(r)
                          ELSE Dead(r)
                     [] r.st = ",|]" -> IF c = "," THEN [r EXCEPT !.st = "v"] ELSE IF c = "]" THEN RClose(r) ELSE Dead(r)
                     [] r.st \in {"k|}", "k"} ->
                          IF c = "q" THEN [r EXCEPT !.st = "key"]
                          ELSE IF c = "}" /\ r.st = "k|}" THEN RClose(r)
                          ELSE Dead(r)
                     [] r.st = ":" -> IF c = ":" THEN [r EXCEPT !.st = "v"] ELSE Dead(r)
                     [] r.st = ",|}" -> IF c = "," THEN [r EXCEPT !.st = "k"] ELSE IF c = "}" THEN RClose(r) ELSE Dead(r)
                     [] OTHER -> Dead(r)

(***************************************************************************)
(* Behaviour: the root bracket first, then one character per step.         *)
(***************************************************************************)
Init == /\ input = <<>> /\ stack = <<>> /\ line = 1 /\ outcome = "init" /\ trace = <<>> /\ result = <<>> /\ ref = [st |-> "init", stack |-> <<>>, dead |-> FALSE, tree |-> <<>>]

Start(root) ==
  /\ outcome = "init" /\ root \in Roots
  /\ input' = <<root>>
  \* the first character is consumed by stateStart of the root machine
  /\ stack' = << Frame(IF root = "[" THEN "L" ELSE "O", IF root = "[" THEN StVal ELSE StKeyStart, FALSE, "e", <<>>, "") >>
  /\ trace' = << <<IF root = "[" THEN 0 ELSE 1, StStart>> >>
  /\ line' = 1 /\ outcome' = "run" /\ result' = <<>>
  /\ ref' = RefInit(root)

\* a nested machine starts in stateStart on the bracket itself: the hook reports that step too
HookTrace(c, before, after) ==
  IF Len(after) > Len(before)
  THEN << <<IF Top.m = "L" THEN 0 ELSE 1, Top.st>>, <<IF after[Len(after)].m = "L" THEN 0 ELSE 1, StStart>> >>
  ELSE << <<IF Top.m = "L" THEN 0 ELSE 1, Top.st>> >>

\* one character through both machines (no exploration bounds: also used by ParserSMTrace.tla)
ReadAny(c) ==
  /\ outcome = "run"
  /\ LET ln == IF c = "n" THEN line + 1 ELSE line
         res == Machine(c)
     IN /\ input' = Append(input, c)
        /\ line' = ln
        /\ stack' = res.stack
        /\ outcome' = res.outcome
        /\ trace' = trace \o (IF c = "i" THEN <<>> ELSE HookTrace(c, stack, res.stack))
        /\ ref' = RStep(ref, c)
        /\ result' = res.tree

Read(c) ==
  /\ Len(input) < MaxLen /\ c \in Classes
  /\ outcome = "run"
  /\ (c \in {"[", "{"} => Len(stack) < MaxDepth \/ Top.inVal \/ Top.st \notin {StVal})
  /\ ReadAny(c)

Next == /\ (\E root \in Roots : Start(root)) \/ (\E c \in Classes : Read(c))
        /\ Emit => PrintT(ToJson([input |-> input', outcome |-> outcome', line |-> line', trace |-> trace',
                                  refst |-> ref'.st, refdead |-> ref'.dead]))

Spec == Init /\ [][Next]_vars

(***************************************************************************)
(* R1.                                                                     *)
(***************************************************************************)
Errors == {"ill", "invalid", "expectQuote", "expectColon", "expectCommaBrace"}
TypeOK == outcome \in {"init", "run", "ok"} \cup Errors

\* C03 at design level: while the input is a viable prefix of a valid document the lenient machine has
\* not failed; when the reference accepts, the machine accepts (at the same character)
NoErrorOnViablePrefix == (outcome \in Errors) => ref.dead
AcceptTogether == (ref.st = "done" /\ ~ref.dead) => outcome = "ok"

\* ... with the same tree
TreeAgree == (ref.st = "done" /\ ~ref.dead) => result = ref.tree

\* C04 at design level: success only when the root machine returns; an ill-formed byte is always an error
OkOnlyAtRootClose == outcome = "ok" => stack = <<>>
IllAlwaysError == (input # <<>> /\ input[Len(input)] = "i") => outcome = "ill"

\* C20 at design level: the line counter is 1 + the newlines consumed, in every frame (shared counter)
LineOK == line = 1 + Cardinality({k \in DOMAIN input : input[k] = "n"})

\* every hook event belongs to a consumed character; nested starts add one event
TraceOK == Len(trace) >= Cardinality({k \in DOMAIN input : input[k] # "i"})
=============================================================================
