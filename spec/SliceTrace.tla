----------------------------- MODULE SliceTrace -----------------------------
(***************************************************************************)
(* Slice headers recorded from the real library (hook VerifSpine: length,  *)
(* capacity and backing-array identity of every live built-in list after   *)
(* every API call of the random driver) must follow the header rules of    *)
(* SliceHdr.tla, operation by operation:                                   *)
(*   - only the receiver of a mutator changes its header, and exactly as   *)
(*     list_impl.go does it (append in place while there is room, fresh    *)
(*     array otherwise; Delete/Pop keep the array; Clear drops it; Sort    *)
(*     re-makes it),                                                       *)
(*   - every list an operation creates has an array no live list uses,     *)
(*     with exactly len slots where the code uses make+copy,               *)
(*   - no two live lists ever share an array (Ownership).                  *)
(* The log is a delta: `sp` lists the headers that are new or changed.     *)
(* Implementation-shaped: a rejection is reported as spec drift, never as  *)
(* a violation of a listed property (DESIGN 1.3).                          *)
(***************************************************************************)
EXTENDS SliceHdr, FiniteSets, TLC, Json

CONSTANT TraceFile
Trace == ndJsonDeserialize(TraceFile)

VARIABLES sp,   \* list id -> header, for the built-in lists alive in the current program
          l
tvars == <<sp, l>>

Empty == [x \in {} |-> Hdr(0, 0, ZeroArr)]

Used(s) == {s[id].arr : id \in {x \in DOMAIN s : s[x].cap > 0}}

Logged(e) == [i \in DOMAIN e.sp |-> [id |-> e.sp[i][1], h |-> Hdr(e.sp[i][2], e.sp[i][3], e.sp[i][4])]]
Ids(e) == {e.sp[i][1] : i \in DOMAIN e.sp}
HdrOf(e, id) == LET i == CHOOSE i \in DOMAIN e.sp : e.sp[i][1] = id IN Hdr(e.sp[i][2], e.sp[i][3], e.sp[i][4])

\* operation classes (names of Heap.tla)
Appends   == {"Add"}
Keeps     == {"Replace", "Reverse", "Equals", "ForEach", "NativeCheck"}
ExactNew  == {"SubList", "Concat", "Clone", "CloneO", "NewListOf", "Merge"}    \* make + copy: cap = len
TreeForm  == {"SetTF", "UnsetTF"}

\* a header an existing list may get through a tree-form write somewhere below the receiver
GenericStep(h, h2, used) ==
    \/ h2.arr = h.arr /\ h2.cap = h.cap /\ h2.len <= h.cap /\ h2.len >= h.len - 1    \* Replace / Delete / Add with room
    \/ \E k \in 1..(h2.len - h.len) : IsAppend(h, k, h2, used)                        \* a write past the end pads with nil

\* the header transition of the receiver
Mutation(e, h, h2, used) ==
    CASE e.op \in Appends  -> IF e.p THEN FALSE ELSE IsAppend(h, e.k, h2, used)
      [] e.op = "Insert"   -> ~e.p /\ IsAppend(h, 1, h2, used)
      [] e.op = "Delete"   -> IF e.p THEN h2.arr = h.arr /\ h2.cap = h.cap /\ h2.len < h.len /\ h2.len > h.len - e.k
                                     ELSE h2 = Hdr(h.len - e.k, h.cap, h.arr)
      [] e.op = "Pop"      -> ~e.p /\ h2 = Hdr(h.len - 1, h.cap, h.arr)
      [] e.op = "Clear"    -> h2 = Hdr(0, 0, ZeroArr)
      [] e.op = "Sort"     -> ~e.p /\ IsMake(h.len, h2, used)
      \* outside its domain Sort keeps the elements of the first element's kind only (or panics: no change)
      [] e.op = "SortAny"  -> ~e.p /\ h2.len <= h.len /\ IsMake(h2.len, h2, used)
      [] OTHER             -> FALSE

Allowed(e) ==
    LET old   == DOMAIN sp
        born  == Ids(e) \ old
        mut   == Ids(e) \cap old
        used  == Used(sp)
    IN /\ \A id \in born :
            IF e.op \in ExactNew /\ ~e.p THEN IsMake(HdrOf(e, id).len, HdrOf(e, id), used) ELSE IsBuilt(HdrOf(e, id), used)
       /\ IF e.op \in TreeForm
          THEN Cardinality(mut) <= 1 /\ \A id \in mut : GenericStep(sp[id], HdrOf(e, id), used)
          ELSE /\ mut \subseteq {e.r}
               /\ \A id \in mut : Mutation(e, sp[id], HdrOf(e, id), used)
       \* operations that must change the receiver's header did
       /\ (e.op \in {"Pop", "Add", "Insert"} /\ ~e.p /\ e.r \in old /\ (e.op # "Add" \/ e.k > 0)) => e.r \in mut

TraceInit == sp = Empty /\ l = 1 /\ TLCSet(1, 1)

Step ==
  /\ l <= Len(Trace)
  /\ LET e == Trace[l] IN
       IF e.t = "reset" THEN sp' = Empty
       ELSE /\ Allowed(e)
            /\ sp' = [id \in (DOMAIN sp) \cup Ids(e) |-> IF id \in Ids(e) THEN HdrOf(e, id) ELSE sp[id]]
  /\ l' = l + 1

TraceSpec == TraceInit /\ [][Step]_tvars

Mark == TLCSet(1, IF l > TLCGet(1) THEN l ELSE TLCGet(1))
TraceAccepted == TLCGet(1) = Len(Trace) + 1

\* two live lists with room for elements never share an array; headers are well formed
Ownership == \A a, b \in DOMAIN sp : a # b /\ sp[a].cap > 0 /\ sp[b].cap > 0 => sp[a].arr # sp[b].arr
WellFormed == \A a \in DOMAIN sp : sp[a].len >= 0 /\ sp[a].len <= sp[a].cap /\ (sp[a].cap = 0 <=> sp[a].arr = ZeroArr)
TraceInv == Ownership /\ WellFormed
=============================================================================
