----------------------------- MODULE HeapTrace -----------------------------
(***************************************************************************)
(* Trace validation (code -> spec) for the heap family: a seeded driver    *)
(* runs random programs on the real library (lists of several hundred      *)
(* elements, many live containers, derived user types) and logs, per step, *)
(* the operation, its outcome and the projected heap.  TLC checks that the *)
(* log is a behaviour of Heap.tla: every step must be one of the results   *)
(* Apply allows for the logged operation, with the logged outcome and the  *)
(* logged heap.  Many programs are concatenated ("reset" lines).           *)
(***************************************************************************)
EXTENDS Heap, Json

CONSTANT TraceFile
Trace == ndJsonDeserialize(TraceFile)

VARIABLES heap, l
tvars == <<heap, l>>

\* decoding of the compact wire format (see HeapGraph.tla)
DVal(x)  == V(x[1], x[2])
DVals(s) == [i \in DOMAIN s |-> DVal(s[i])]
DCell(c) == Cell(c[1], DVals(c[2]))
DHeap(h) == [r \in DOMAIN h |-> DCell(h[r])]
DOp(o)   == Op(o[1], o[2], o[3], o[4], DVal(o[5]), DVals(o[6]), o[7])

\* the log carries the heap as a delta: n = number of cells, ch = the cells that differ from the
\* previous line (<<id, cell>>); every other cell must be unchanged
Matches(h2, e) ==
  LET changed == {e.ch[i][1] : i \in DOMAIN e.ch} IN
  /\ Len(h2) = e.n
  /\ \A i \in DOMAIN e.ch : e.ch[i][1] \in DOMAIN h2 /\ h2[e.ch[i][1]] = DCell(e.ch[i][2])
  /\ \A r \in (DOMAIN h2) \ changed : r \in DOMAIN heap /\ h2[r] = heap[r]

TraceInit == heap = <<>> /\ l = 1 /\ TLCSet(1, 1)

Step ==
  /\ l <= Len(Trace)
  /\ LET e == Trace[l] IN
       IF e.t = "reset" THEN heap' = <<>>
       ELSE \E res \in Apply(heap, DOp(e.o)) :
              /\ res.out.p = e.p
              /\ res.out.ret = DVal(e.ret)
              /\ Matches(res.heap, e)
              /\ heap' = res.heap
  /\ l' = l + 1

TraceSpec == TraceInit /\ [][Step]_tvars

Mark == TLCSet(1, IF l > TLCGet(1) THEN l ELSE TLCGet(1))
TraceAccepted == TLCGet(1) = Len(Trace) + 1

\* every visited heap is well formed
TraceInv == HeapOK(heap) /\ Acyclic(heap)
=============================================================================
