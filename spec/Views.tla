------------------------------- MODULE Views -------------------------------
(***************************************************************************)
(* Per-container functions of the List / Object API as pure operators:     *)
(* typed views (C14), Sort / Reverse (C17), numeric aggregates (C18).      *)
(*                                                                         *)
(* The state is one container under construction: a behaviour appends one  *)
(* element token per step (lists) or sets one field (objects), so the      *)
(* reachable states are exactly all lists up to MaxLen over the token      *)
(* alphabet / all objects over the key tokens.  For every state TLC prints *)
(* the container together with the expected result of every view method,   *)
(* which the harness compares with the real library.                       *)
(*                                                                         *)
(* Element tokens are <<kind, v>>: kinds nil bool int float str O L.       *)
(* int token v denotes the integer v, float token q the number q/4 (all    *)
(* arithmetic below is exact: sums are kept multiplied by 4, products as   *)
(* numerator over 4^n); str tokens are ordered by v; O/L tokens are        *)
(* distinct containers (equal tokens = the same container).                *)
(***************************************************************************)
EXTENDS Integers, Sequences, FiniteSets, TLC, Json

CONSTANTS Tokens,     \* element alphabet, set of <<kind, v>>
          MaxLen,     \* lists up to this length
          NKeys,      \* objects over key tokens 1..NKeys (0 = list mode)
          Emit

VARIABLES seq    \* list mode: the list; object mode: tuple of NKeys slots (<<"absent", 0>> = missing)

Absent == <<"absent", 0>>
Kinds == {"O", "L", "str", "bool", "int", "float"}
ListMode == NKeys = 0

Init == seq = IF ListMode THEN <<>> ELSE [k \in 1..NKeys |-> Absent]

Range(s) == {s[i] : i \in DOMAIN s}

(***************************************************************************)
(* Typed views.                                                            *)
(***************************************************************************)
\* positions (1-based) of the elements of kind X, ascending
Pos(s, X) == {i \in DOMAIN s : s[i][1] = X}

\* the view of kind X: sequence of <<0-based index, element>> in index order, each exactly once
\* (SelectSeq is evaluated natively by TLC: no deep recursion on long lists)
SelectKind(s, X) == SelectSeq([i \in DOMAIN s |-> <<i - 1, s[i]>>], LAMBDA p : p[2][1] = X)
Everything(s) == [i \in DOMAIN s |-> <<i - 1, s[i]>>]

AllOf(s, X) == \A i \in DOMAIN s : s[i][1] = X
AllNumeric(s) == \A i \in DOMAIN s : s[i][1] \in {"int", "float"}

\* object mode: the fields of kind X as a set of <<key, element>>
Fields(s) == {<<k, s[k]>> : k \in {j \in DOMAIN s : s[j] # Absent}}
FieldsOf(s, X) == {f \in Fields(s) : f[2][1] = X}

(***************************************************************************)
(* Sort / Reverse.                                                         *)
(***************************************************************************)
Rev(s) == [i \in 1..Len(s) |-> s[Len(s) + 1 - i]]
Sortable(k) == k \in {"str", "int", "float"}
Homogeneous(s) == \A i \in DOMAIN s : s[i][1] = s[1][1]
InSortDomain(s) == s # <<>> /\ Sortable(s[1][1]) /\ Homogeneous(s)
SortPanics(s) == s # <<>> /\ ~Sortable(s[1][1])

\* TLC's SortSeq (module TLC) is evaluated natively
SortVals(s) == SortSeq(s, LAMBDA a, b : a[2] < b[2])

IsSorted(s) == \A i \in 1..(Len(s) - 1) : s[i][2] <= s[i + 1][2]
SameBag(a, b) == /\ Len(a) = Len(b)
                 /\ \A x \in Range(a) \cup Range(b) :
                      Cardinality({i \in DOMAIN a : a[i] = x}) = Cardinality({i \in DOMAIN b : b[i] = x})

(***************************************************************************)
(* Aggregates (exact).  Value of an element times 4: int v -> 4v, float q  *)
(* -> q.                                                                   *)
(***************************************************************************)
Num4(e) == IF e[1] = "int" THEN 4 * e[2] ELSE e[2]
NumIdx(s) == {i \in DOMAIN s : s[i][1] \in {"int", "float"}}
IntIdx(s) == {i \in DOMAIN s : s[i][1] = "int"}

IntVal(e) == e[2]
\* folds over the positions in I, as recursions over the index (linear in the length of the list)
Min2(a, b) == IF a <= b THEN a ELSE b
Max2(a, b) == IF a >= b THEN a ELSE b
RECURSIVE FoldIdx(_, _, _, _, _)
\* FoldIdx(s, I, i, f, acc): acc combined with f(s[j]) for every j <= i in I; f is selected by name
Contribution(name, e) == CASE name = "sum4" -> Num4(e) [] name = "isum" -> e[2] [] name = "prod" -> e[2]
                           [] name \in {"min4", "max4"} -> Num4(e) [] OTHER -> e[2]
Combine(name, acc, x) == CASE name \in {"sum4", "isum"} -> acc + x [] name = "prod" -> acc * x
                           [] name \in {"min4", "imin"} -> Min2(acc, x) [] OTHER -> Max2(acc, x)
FoldIdx(s, I, i, name, acc) ==
  IF i = 0 THEN acc
  ELSE FoldIdx(s, I, i - 1, name, IF i \in I THEN Combine(name, acc, Contribution(name, s[i])) ELSE acc)
Big == 1073741823   \* beyond every token value
Sum4Over(s, I)   == FoldIdx(s, I, Len(s), "sum4", 0)
IntSumOver(s, I) == FoldIdx(s, I, Len(s), "isum", 0)
\* product of the raw token numbers (every float q/4 contributes q, every int v contributes v)
ProdOver(s, I)   == FoldIdx(s, I, Len(s), "prod", 1)
Min4Over(s, I) == IF I = {} THEN 0 ELSE FoldIdx(s, I, Len(s), "min4", Big)
Max4Over(s, I) == IF I = {} THEN 0 ELSE FoldIdx(s, I, Len(s), "max4", 0 - Big)
IMinOver(s, I) == IF I = {} THEN 0 ELSE FoldIdx(s, I, Len(s), "imin", Big)
IMaxOver(s, I) == IF I = {} THEN 0 ELSE FoldIdx(s, I, Len(s), "imax", 0 - Big)
NFloats(s) == Cardinality({i \in DOMAIN s : s[i][1] = "float"})

Aggregates(s) ==
  [sum4   |-> Sum4Over(s, NumIdx(s)),          \* Sum * 4
   prodN  |-> ProdOver(s, NumIdx(s)),          \* Prod * 4^nf
   nf     |-> NFloats(s),
   min4   |-> Min4Over(s, NumIdx(s)),          \* Min * 4 (0 when there is no numeric element)
   max4   |-> Max4Over(s, NumIdx(s)),
   count  |-> Len(s),
   isum   |-> IntSumOver(s, IntIdx(s)),
   iprod  |-> ProdOver(s, IntIdx(s)),
   imin   |-> IMinOver(s, IntIdx(s)),
   imax   |-> IMaxOver(s, IntIdx(s)),
   numeric |-> AllNumeric(s)]

(***************************************************************************)
(* Behaviour and emission.                                                 *)
(***************************************************************************)
JSel(v) == [j \in DOMAIN v |-> <<v[j][1], v[j][2]>>]

ListRecord(s) ==
  [list |-> s,
   sel  |-> [X \in Kinds |-> JSel(SelectKind(s, X))],
   nil  |-> JSel(SelectKind(s, "nil")),
   all  |-> {X \in Kinds : AllOf(s, X)},
   allNumeric |-> AllNumeric(s),
   rev  |-> Rev(s),
   sortDomain |-> InSortDomain(s),
   sortPanics |-> SortPanics(s),
   sorted |-> IF InSortDomain(s) THEN SortVals(s) ELSE <<>>,
   agg  |-> Aggregates(s)]

ObjRecord(s) ==
  [obj  |-> s,
   fields |-> [X \in Kinds |-> FieldsOf(s, X)],
   count |-> Cardinality(Fields(s))]

Append1(t) == /\ ListMode /\ Len(seq) < MaxLen /\ seq' = Append(seq, t)
SetField(k, t) == /\ ~ListMode /\ seq[k] = Absent /\ seq' = [seq EXCEPT ![k] = t]

\* the empty container is a case too: one stuttering step on the initial state prints it
IsEmpty == seq = IF ListMode THEN <<>> ELSE [k \in 1..NKeys |-> Absent]
Next == /\ \/ \E t \in Tokens : Append1(t)
           \/ \E k \in 1..NKeys, t \in Tokens : SetField(k, t)
           \/ (IsEmpty /\ UNCHANGED seq)
        /\ Emit => PrintT(ToJson(IF ListMode THEN ListRecord(seq') ELSE ObjRecord(seq')))

Spec == Init /\ [][Next]_seq

(***************************************************************************)
(* R1: laws of the specification.                                          *)
(***************************************************************************)
\* C14: the typed views partition the positions; AllX <=> the view is everything; vacuous truth on empty
PartitionLaw ==
  ListMode =>
    /\ UNION {Pos(seq, X) : X \in Kinds \cup {"nil"}} = DOMAIN seq
    /\ \A X, Y \in Kinds \cup {"nil"} : X # Y => Pos(seq, X) \cap Pos(seq, Y) = {}
    /\ \A X \in Kinds : AllOf(seq, X) = (Len(SelectKind(seq, X)) = Len(seq))
    /\ (seq = <<>> => \A X \in Kinds : AllOf(seq, X)) /\ (seq = <<>> => AllNumeric(seq))
    /\ \A X \in Kinds : \A j \in 1..(Len(SelectKind(seq, X)) - 1) : SelectKind(seq, X)[j][1] < SelectKind(seq, X)[j + 1][1]

\* C17: Sort yields a sorted permutation and is idempotent; Reverse is an involution
SortLaw ==
  ListMode =>
    /\ Rev(Rev(seq)) = seq
    /\ \A i \in DOMAIN seq : Rev(seq)[i] = seq[Len(seq) + 1 - i]
    /\ InSortDomain(seq) => LET s == SortVals(seq) IN IsSorted(s) /\ SameBag(s, seq) /\ SortVals(s) = s /\ SortVals(Rev(seq)) = s

\* C18: fold laws (also exercised on all-negative and single-element lists)
FoldLaw ==
  ListMode =>
    LET a == Aggregates(seq) IN
    /\ \A i \in NumIdx(seq) : a.min4 <= Num4(seq[i]) /\ Num4(seq[i]) <= a.max4
    /\ NumIdx(seq) # {} => (\E i \in NumIdx(seq) : a.min4 = Num4(seq[i])) /\ (\E i \in NumIdx(seq) : a.max4 = Num4(seq[i]))
    /\ NumIdx(seq) = {} => a.sum4 = 0 /\ a.prodN = 1 /\ a.min4 = 0 /\ a.max4 = 0
    /\ IntIdx(seq) = {} => a.isum = 0 /\ a.iprod = 1 /\ a.imin = 0 /\ a.imax = 0
    /\ seq # <<>> => LET b == Aggregates(SubSeq(seq, 1, Len(seq) - 1))
                         e == seq[Len(seq)]
                     IN IF e[1] \in {"int", "float"}
                        THEN a.sum4 = b.sum4 + Num4(e) /\ a.prodN = b.prodN * e[2]
                        ELSE a.sum4 = b.sum4 /\ a.prodN = b.prodN
=============================================================================
