------------------------------ MODULE JsonText ------------------------------
(***************************************************************************)
(* RFC 8259 as an explicit pushdown machine (JsonRef).  A behaviour emits  *)
(* one token per step and keeps the stack of open containers with the      *)
(* partially built value tree; the reachable states are exactly the viable *)
(* prefixes of JSON documents with an array/object root (inside the        *)
(* bounds), and the states whose root has closed are the complete          *)
(* documents together with the tree a reference decoder returns.           *)
(*                                                                         *)
(* Scalars are CLASSES (string classes, number classes); the Go harness    *)
(* chooses members of each class (exhaustively for code points).           *)
(*                                                                         *)
(* The same machine is the generator for                                   *)
(*   C01 C02 C16: the value trees to build with the API (token text is     *)
(*                produced by the library itself), plus the canonical      *)
(*                layout Layout(tree) for FormatString;                    *)
(*   C03:         valid documents with whitespace tokens in any gap and    *)
(*                every escape / number spelling, with the expected tree;  *)
(*   C04:         documents whose every proper prefix must be rejected;    *)
(*   C20:         (Mode = "error") one injected bad token, a tail, and the *)
(*                line numbers a cited error line may have.                *)
(***************************************************************************)
EXTENDS Integers, Sequences, FiniteSets, TLC, Json

CONSTANTS MaxToks,      \* bound on emitted tokens (whitespace and prefix tokens included)
          MaxDepth,     \* bound on nesting
          MaxWidth,     \* bound on members per container
          Roots,        \* subset of {"[", "{"}
          StrBasic, StrFocus,   \* string classes for ordinary leaves / for the single focus leaf
          NumBasic, NumFocus,   \* number classes
          Lits,                 \* subset of {"true", "false", "null"}
          KeyBasic, KeyFocus,   \* key classes
          WsKinds, WsBudget,    \* whitespace tokens (kinds) and how many may be placed
          PreKinds,             \* tokens allowed before the root bracket ("txt", whitespace kinds)
          Mode,                 \* "valid" or "error"
          BadKinds, TailLen,    \* error mode: injected bad tokens, length of the tail after it
          Emit

VARIABLES toks,     \* tokens emitted so far; a token is <<type, class>>
          stack,    \* open containers, innermost last
          root,     \* <<>> until the root closes, then <<tree>>
          wsLeft,   \* remaining whitespace budget
          focus,    \* TRUE once the focus leaf / key was used
          bad       \* error mode: 0 = none yet, else the index in toks of the bad token

vars == <<toks, stack, root, wsLeft, focus, bad>>

Tok(t, c) == <<t, c>>
\* value trees: <<"s", class>> <<"n", class>> <<"l", literal>> <<"L", <<trees>>>> <<"O", << <<keyclass, tree>> ... >>>>
Frame(k, items, key, exp) == [k |-> k, items |-> items, key |-> key, exp |-> exp]

Top == stack[Len(stack)]
Depth == Len(stack)

\* what the machine expects next
Expect == IF root # <<>> THEN "end"
          ELSE IF stack = <<>> THEN "root"
          ELSE Top.exp

\* a complete value v arrives in the innermost container
WithValue(st, v) ==
  LET f == st[Len(st)] IN
  IF f.k = "L" THEN [st EXCEPT ![Len(st)] = Frame("L", Append(f.items, v), "", ",|]")]
  ELSE [st EXCEPT ![Len(st)] = Frame("O", Append(f.items, <<f.key, v>>), "", ",|}")]

ValueOK == Expect \in {"v|]", "v"}
CanOpen == Depth < MaxDepth
RoomFor(f) == Len(f.items) < MaxWidth

(***************************************************************************)
(* Token-level actions.                                                    *)
(***************************************************************************)
Put(t) == toks' = Append(toks, t)

OpenRoot(b) ==
  /\ Expect = "root" /\ b \in Roots
  /\ Put(Tok(b, ""))
  /\ stack' = <<Frame(IF b = "[" THEN "L" ELSE "O", <<>>, "", IF b = "[" THEN "v|]" ELSE "k|}")>>
  /\ UNCHANGED <<root, wsLeft, focus, bad>>

OpenNested(b) ==
  /\ ValueOK /\ CanOpen /\ RoomFor(Top)
  /\ Put(Tok(b, ""))
  /\ stack' = Append(stack, Frame(IF b = "[" THEN "L" ELSE "O", <<>>, "", IF b = "[" THEN "v|]" ELSE "k|}"))
  /\ UNCHANGED <<root, wsLeft, focus, bad>>

Close ==
  /\ stack # <<>>
  /\ \/ Top.k = "L" /\ Top.exp \in {"v|]", ",|]"}
     \/ Top.k = "O" /\ Top.exp \in {"k|}", ",|}"}
  /\ Put(Tok(IF Top.k = "L" THEN "]" ELSE "}", ""))
  /\ LET v == <<Top.k, Top.items>>
         rest == SubSeq(stack, 1, Len(stack) - 1)
     IN IF rest = <<>> THEN stack' = <<>> /\ root' = <<v>>
        ELSE stack' = WithValue(rest, v) /\ root' = root
  /\ UNCHANGED <<wsLeft, focus, bad>>

Scalar(t, c, isFocus) ==
  /\ ValueOK /\ RoomFor(Top)
  /\ isFocus => ~focus
  /\ Put(Tok(t, c))
  /\ stack' = WithValue(stack, <<IF t = "str" THEN "s" ELSE IF t = "num" THEN "n" ELSE "l", c>>)
  /\ focus' = (focus \/ isFocus)
  /\ UNCHANGED <<root, wsLeft, bad>>

Key(c, isFocus) ==
  /\ Expect \in {"k|}", "k"} /\ RoomFor(Top)
  /\ isFocus => ~focus
  /\ Put(Tok("key", c))
  /\ stack' = [stack EXCEPT ![Len(stack)] = Frame("O", Top.items, c, ":")]
  /\ focus' = (focus \/ isFocus)
  /\ UNCHANGED <<root, wsLeft, bad>>

Colon ==
  /\ Expect = ":"
  /\ Put(Tok(":", ""))
  /\ stack' = [stack EXCEPT ![Len(stack)] = Frame("O", Top.items, Top.key, "v")]
  /\ UNCHANGED <<root, wsLeft, focus, bad>>

Comma ==
  /\ Expect \in {",|]", ",|}"}
  /\ RoomFor(Top)
  /\ Put(Tok(",", ""))
  /\ stack' = [stack EXCEPT ![Len(stack)] = Frame(Top.k, Top.items, "", IF Top.k = "L" THEN "v" ELSE "k")]
  /\ UNCHANGED <<root, wsLeft, focus, bad>>

\* insignificant whitespace may stand in any gap inside the root brackets (budgeted)
White(k) ==
  /\ Expect \notin {"root", "end"} /\ wsLeft > 0 /\ k \in WsKinds
  /\ Put(Tok("ws", k))
  /\ wsLeft' = wsLeft - 1
  /\ UNCHANGED <<stack, root, focus, bad>>

\* anything may precede the root bracket (the parser starts at the first bracket)
Prefix(k) ==
  /\ Expect = "root" /\ k \in PreKinds /\ wsLeft > 0
  /\ Put(Tok("pre", k))
  /\ wsLeft' = wsLeft - 1
  /\ UNCHANGED <<stack, root, focus, bad>>

Legal ==
  \/ \E b \in {"[", "{"} : OpenRoot(b) \/ OpenNested(b)
  \/ Close \/ Colon \/ Comma
  \/ \E c \in StrBasic : Scalar("str", c, FALSE)
  \/ \E c \in StrFocus : Scalar("str", c, TRUE)
  \/ \E c \in NumBasic : Scalar("num", c, FALSE)
  \/ \E c \in NumFocus : Scalar("num", c, TRUE)
  \/ \E c \in Lits : Scalar("lit", c, FALSE)
  \/ \E c \in KeyBasic : Key(c, FALSE)
  \/ \E c \in KeyFocus : Key(c, TRUE)
  \/ \E k \in WsKinds : White(k)
  \/ \E k \in PreKinds : Prefix(k)

(***************************************************************************)
(* Error mode: one bad token, then a tail of delimiters / newlines.        *)
(***************************************************************************)
BadFits(k) ==
  CASE k = "@"    -> Expect \notin {"root", "end"}           \* a character that fits nowhere
    [] k = "lit"  -> ValueOK \/ Expect = "v"                  \* an invalid literal (1@, tru) where a value may stand
    [] k = ";"    -> Expect = ":"                             \* ';' instead of ':'
    [] k = "ukey" -> Expect \in {"k|}", "k"}                  \* unquoted key
    [] OTHER      -> FALSE

Inject(k) ==
  /\ Mode = "error" /\ bad = 0 /\ k \in BadKinds /\ BadFits(k)
  /\ Put(Tok("bad", k))
  /\ bad' = Len(toks) + 1
  /\ UNCHANGED <<stack, root, wsLeft, focus>>

TailToks == {Tok(",", ""), Tok("]", ""), Tok("}", ""), Tok("ws", "NL"), Tok(":", "")}
TailTok(t) ==
  /\ bad # 0 /\ Len(toks) - bad < TailLen /\ t \in TailToks
  /\ Put(t)
  /\ UNCHANGED <<stack, root, wsLeft, focus, bad>>

Init == /\ toks = <<>> /\ stack = <<>> /\ root = <<>> /\ wsLeft = WsBudget /\ focus = FALSE /\ bad = 0

(***************************************************************************)
(* Derived data printed with a document.                                   *)
(***************************************************************************)
IsNL(t) == (t[1] \in {"ws", "pre"}) /\ t[2] = "NL"
\* 1-based line of token i (newline tokens belong to the line they end)
LineOf(ts, i) == 1 + Cardinality({j \in 1..(i - 1) : IsNL(ts[j])})

\* canonical layout of a tree: sequence of <<"t", text-slot>> / <<"nl", level>> tokens, independent of the indent width
RECURSIVE LayoutV(_, _)
LayoutV(v, lvl) ==
  IF v[1] \in {"s", "n", "l"} THEN << <<"leaf", v[1], v[2]>> >>
  ELSE IF v[2] = <<>> THEN << <<"p", IF v[1] = "L" THEN "[" ELSE "{", "">>, <<"p", IF v[1] = "L" THEN "]" ELSE "}", "">> >>
  ELSE LET open  == << <<"p", IF v[1] = "L" THEN "[" ELSE "{", "">> >>
           close == << <<"nl", "", lvl>>, <<"p", IF v[1] = "L" THEN "]" ELSE "}", "">> >>
           RECURSIVE Items(_)
           Items(i) ==
             IF i > Len(v[2]) THEN <<>>
             ELSE LET item == IF v[1] = "L" THEN LayoutV(v[2][i], lvl + 1)
                              ELSE << <<"key", v[2][i][1], "">>, <<"p", ": ", "">> >> \o LayoutV(v[2][i][2], lvl + 1)
                  IN << <<"nl", "", lvl + 1>> >> \o item \o (IF i < Len(v[2]) THEN << <<"p", ",", "">> >> ELSE <<>>) \o Items(i + 1)
       IN open \o Items(1) \o close
Layout(v) == LayoutV(v, 0)

\* size of a tree (nodes)
RECURSIVE Nodes(_)
Nodes(v) == IF v[1] \in {"s", "n", "l"} THEN 1
            ELSE 1 + (LET RECURSIVE S(_) S(i) == IF i = 0 THEN 0 ELSE (IF v[1] = "L" THEN Nodes(v[2][i]) ELSE Nodes(v[2][i][2])) + S(i - 1)
                      IN S(Len(v[2])))

\* the delimiters that terminate a literal in the innermost open container
DelimsHere == IF stack = <<>> THEN {} ELSE IF Top.k = "L" THEN {",", "]"} ELSE {",", "}"}

Next ==
  /\ Len(toks) < MaxToks
  /\ \/ bad = 0 /\ Legal
     \/ \E k \in BadKinds : Inject(k)
     \/ \E t \in TailToks : TailTok(t)
  /\ (Emit /\ Mode = "valid" /\ root' # <<>>) =>
        PrintT(ToJson([toks |-> toks', tree |-> root'[1], layout |-> Layout(root'[1]), nodes |-> Nodes(root'[1])]))

\* error mode prints in the state AFTER the tail grew (the record needs the new token list)
NextErr ==
  /\ Next
  /\ (Emit /\ Mode = "error" /\ bad' # 0) =>
        PrintT(ToJson(LET ts == toks' b == bad'
                          firstDelim == {i \in (b + 1)..Len(ts) : ts[i][1] \in DelimsHere}
                          d == IF firstDelim = {} THEN 0 ELSE CHOOSE i \in firstDelim : \A j \in firstDelim : i <= j
                      IN [toks |-> ts, bad |-> b, badLine |-> LineOf(ts, b), delim |-> d,
                          delimLine |-> IF d = 0 THEN 0 ELSE LineOf(ts, d),
                          ctx |-> IF stack = <<>> THEN "" ELSE Top.k, exp |-> Expect,
                          lines |-> [i \in 1..Len(ts) |-> LineOf(ts, i)]]))

Spec == Init /\ [][NextErr]_vars

(***************************************************************************)
(* R1: properties of the reference machine itself.                         *)
(***************************************************************************)
\* an independent recursive-descent reading of a token list (second formulation of JsonRef):
\* strips whitespace / prefix tokens and re-parses; returns <<tree, next index>> or <<>> on failure
Sig(ts) == SelectSeq(ts, LAMBDA t : t[1] \notin {"ws", "pre"})

RECURSIVE PValue(_, _), PList(_, _, _), PObj(_, _, _)
PValue(ts, i) ==
  IF i > Len(ts) THEN <<>>
  ELSE LET t == ts[i] IN
       CASE t[1] = "str" -> << <<"s", t[2]>>, i + 1>>
         [] t[1] = "num" -> << <<"n", t[2]>>, i + 1>>
         [] t[1] = "lit" -> << <<"l", t[2]>>, i + 1>>
         [] t[1] = "["   -> IF i + 1 <= Len(ts) /\ ts[i + 1][1] = "]" THEN << <<"L", <<>>>>, i + 2>> ELSE PList(ts, i + 1, <<>>)
         [] t[1] = "{"   -> IF i + 1 <= Len(ts) /\ ts[i + 1][1] = "}" THEN << <<"O", <<>>>>, i + 2>> ELSE PObj(ts, i + 1, <<>>)
         [] OTHER -> <<>>
PList(ts, i, acc) ==
  LET r == PValue(ts, i) IN
  IF r = <<>> THEN <<>>
  ELSE IF r[2] > Len(ts) THEN <<>>
  ELSE IF ts[r[2]][1] = "," THEN PList(ts, r[2] + 1, Append(acc, r[1]))
  ELSE IF ts[r[2]][1] = "]" THEN << <<"L", Append(acc, r[1])>>, r[2] + 1>>
  ELSE <<>>
PObj(ts, i, acc) ==
  IF i + 1 > Len(ts) \/ ts[i][1] # "key" \/ ts[i + 1][1] # ":" THEN <<>>
  ELSE LET r == PValue(ts, i + 2) IN
       IF r = <<>> THEN <<>>
       ELSE IF r[2] > Len(ts) THEN <<>>
       ELSE IF ts[r[2]][1] = "," THEN PObj(ts, r[2] + 1, Append(acc, <<ts[i][2], r[1]>>))
       ELSE IF ts[r[2]][1] = "}" THEN << <<"O", Append(acc, <<ts[i][2], r[1]>>)>>, r[2] + 1>>
       ELSE <<>>

Reparse(ts) == LET s == Sig(ts) r == PValue(s, 1) IN IF r # <<>> /\ r[2] = Len(s) + 1 THEN <<r[1]>> ELSE <<>>

\* the two formulations agree: the pushdown machine has closed the root iff recursive descent accepts,
\* with the same tree; in particular no proper prefix of a document is a document (C04)
RefAgree == bad = 0 => (root = Reparse(toks))

\* the layout is the document's own tokens: removing line breaks and ": " padding gives the compact text order (C16)
RECURSIVE Flat(_)
Flat(v) == IF v[1] \in {"s", "n", "l"} THEN <<v>>
           ELSE LET RECURSIVE F(_) F(i) == IF i > Len(v[2]) THEN <<>>
                                          ELSE (IF v[1] = "L" THEN Flat(v[2][i]) ELSE << <<"k", v[2][i][1]>> >> \o Flat(v[2][i][2])) \o F(i + 1)
                IN << <<v[1], "open">> >> \o F(1) \o << <<v[1], "close">> >>
LayoutLeaves(l) == SelectSeq(l, LAMBDA t : t[1] \in {"leaf", "key"})
LayoutOK == root # <<>> =>
   LET l == Layout(root[1]) IN
   /\ Len(LayoutLeaves(l)) = Len(SelectSeq(Flat(root[1]), LAMBDA t : t[1] \in {"s", "n", "l", "k"}))
   /\ \A i \in DOMAIN l : l[i][1] = "nl" => l[i][3] >= 0 /\ l[i][3] <= MaxDepth
   /\ l[1][1] = "p" /\ l[Len(l)][1] = "p"

TypeOK == /\ Len(toks) <= MaxToks /\ Depth <= MaxDepth /\ wsLeft >= 0
          /\ (root # <<>> => stack = <<>>)
=============================================================================
