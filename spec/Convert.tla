------------------------------ MODULE Convert ------------------------------
(***************************************************************************)
(* C12: every value accepted by an insertion entry point is normalised to  *)
(* exactly one of seven kinds (or rejected), consistently reported.        *)
(*                                                                         *)
(* A behaviour is one insertion: the step picks an entry point, a native   *)
(* Go class and a nesting context, and records what the container must     *)
(* report afterwards.  The reachable states are all                        *)
(* (entry point, class, context) triples; TLC prints one record per triple *)
(* and the harness runs every member of the class (all 8/16-bit integers,  *)
(* boundaries and samples of the wider ones) through the real API.         *)
(***************************************************************************)
EXTENDS Integers, Sequences, FiniteSets, TLC, Json

CONSTANTS EntryPoints, Contexts, Emit

VARIABLE last
Kinds == {"nil", "O", "L", "str", "bool", "int", "float"}

SignedInts   == {"int", "int8", "int16", "int32", "int64"}
UnsignedInts == {"uint", "uint8", "uint16", "uint32", "uint64"}
Floats       == {"float32", "float64"}
MapFlavours  == {"map[string]any", "map[string]Object", "map[string]List", "map[string]string", "map[string]bool", "map[string]int", "map[string]float64"}
SliceFlavours == {"[]any", "[]Object", "[]List", "[]string", "[]bool", "[]int", "[]float64"}
\* typed containers holding a nil interface element: the element is nil, the container is accepted
NilHolders   == {"[]Object{nil}", "[]List{nil}", "map[string]Object{nil}", "map[string]List{nil}", "[]any{nil}"}
Unsupported  == {"struct", "pointer", "chan", "func", "json.Number", "[]byte", "uintptr", "complex128", "[]int32", "[]int8", "map[int]any",
                 "map[string]int64", "time.Duration", "named int8", "named string", "anytype.Type", "typed nil pointer", "[][]any", "array"}

\* user types embedding Object / List and registered with Init are Objects / Lists (stored by identity)
DerivedClasses == {"derived Object", "derived List"}

Classes == SignedInts \cup UnsignedInts \cup Floats \cup {"string", "bool", "nil", "Object", "List"} \cup DerivedClasses
           \cup MapFlavours \cup SliceFlavours \cup NilHolders \cup Unsupported

Reject == "reject"

\* the normal form of a class
Normalize(c) ==
  CASE c \in SignedInts \cup UnsignedInts -> "int"
    [] c \in Floats -> "float"
    [] c = "string" -> "str"
    [] c = "bool" -> "bool"
    [] c = "nil" -> "nil"
    [] c = "derived Object" -> "O"
    [] c = "derived List" -> "L"
    [] c = "Object" \/ c \in MapFlavours \/ c \in {"map[string]Object{nil}", "map[string]List{nil}"} -> "O"
    [] c = "List" \/ c \in SliceFlavours \/ c \in {"[]Object{nil}", "[]List{nil}", "[]any{nil}"} -> "L"
    [] OTHER -> Reject

\* containers built from Go maps / slices are fresh; anytype containers are stored as they are
Fresh(c) == c \in MapFlavours \cup SliceFlavours \cup NilHolders
StoredByIdentity(c) == c \in {"Object", "List"} \cup DerivedClasses

\* which typed getters succeed for a stored kind (none for nil)
Getters(k) == IF k \in {Reject, "nil"} THEN {} ELSE {k}

\* NewListFrom / NewObjectFrom take a container flavour directly; other entry points take any value
Takes(ep, c, ctx) ==
  CASE ep = "NewListFrom" -> ctx # "direct" \/ c \in SliceFlavours \cup {"[]Object{nil}", "[]List{nil}", "[]any{nil}"} \/ Normalize(c) = Reject
    [] ep = "NewObjectFrom" -> ctx # "direct" \/ c \in MapFlavours \cup {"map[string]Object{nil}", "map[string]List{nil}"} \/ Normalize(c) = Reject
    \* a rejected result of MapAsync panics inside a worker goroutine, which ends the process: it cannot be
    \* observed by an in-process harness and is not explored
    [] ep \in {"list.MapAsync", "object.MapAsync"} -> Normalize(c) # Reject
    [] OTHER -> TRUE

Record(ep, c, ctx) ==
  [ep |-> ep, cls |-> c, ctx |-> ctx, kind |-> Normalize(c), getters |-> Getters(Normalize(c)),
   fresh |-> Fresh(c), identity |-> StoredByIdentity(c),
   \* a rejected value nested in a Go slice / map makes the whole insertion panic
   outerKind |-> IF Normalize(c) = Reject THEN Reject
                 ELSE CASE ctx = "direct" -> Normalize(c) [] ctx = "in []any" -> "L" [] ctx = "in map[string]any" -> "O" [] ctx = "depth 2" -> "L" [] OTHER -> Reject]

Init == last = <<>>
\* insertions are independent of each other: every triple is one step from the initial state
Next == \E ep \in EntryPoints, c \in Classes, ctx \in Contexts :
          /\ last = <<>>
          /\ Takes(ep, c, ctx)
          /\ last' = <<ep, c, ctx>>
          /\ Emit => PrintT(ToJson(Record(ep, c, ctx)))
Spec == Init /\ [][Next]_last

\* R1: exactly one normal form per class; exactly the matching getter succeeds (none for nil / rejected)
NormalFormLaw ==
  /\ \A c \in Classes : Normalize(c) \in Kinds \cup {Reject}
  /\ \A c \in Classes : Cardinality(Getters(Normalize(c))) = (IF Normalize(c) \in {Reject, "nil"} THEN 0 ELSE 1)
  /\ \A c \in Unsupported : Normalize(c) = Reject
  /\ \A c \in Classes \ Unsupported : Normalize(c) # Reject
  /\ \A c \in Classes : ~(Fresh(c) /\ StoredByIdentity(c))
=============================================================================
