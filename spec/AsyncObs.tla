------------------------------ MODULE AsyncObs ------------------------------
(***************************************************************************)
(* What a caller can observe of ForEachAsync / MapAsync (C15): callback i  *)
(* is entered at most once, returns after it was entered, and the API call *)
(* returns only after every callback has returned.  Async.tla refines this *)
(* specification (checked by TLC for N <= 4); recorded executions of the   *)
(* real library of any size are validated against it (AsyncTrace.tla).     *)
(***************************************************************************)
EXTENDS Integers, FiniteSets

CONSTANT N          \* largest container size considered
VARIABLES n,        \* size of the container of this call (fixed during the call)
          called, retd, returned
ovars == <<n, called, retd, returned>>
W == 1..n

OInit == n \in 0..N /\ called = {} /\ retd = {} /\ returned = FALSE

OCall(i) == /\ ~returned /\ i \notin called
            /\ called' = called \cup {i} /\ UNCHANGED <<n, retd, returned>>
ORet(i) == /\ i \in called /\ i \notin retd
           /\ retd' = retd \cup {i} /\ UNCHANGED <<n, called, returned>>
OReturn == /\ ~returned /\ retd = W
           /\ returned' = TRUE /\ UNCHANGED <<n, called, retd>>

ONext == (\E i \in W : OCall(i) \/ ORet(i)) \/ OReturn
Spec == OInit /\ [][ONext]_ovars

ReturnedAfterAll == returned => retd = W
=============================================================================
