------------------------------ MODULE SliceHdr ------------------------------
(***************************************************************************)
(* Slice headers and the rules Go and list_impl.go follow for them; pure   *)
(* operators shared by the exhaustive memory model (SliceMem.tla) and the  *)
(* validation of headers recorded from the library (SliceTrace.tla).       *)
(***************************************************************************)
EXTENDS Integers, Sequences

Hdr(l, c, a) == [len |-> l, cap |-> c, arr |-> a]

\* array 0 is Go's zero-size allocation shared by every empty make / []field{}
ZeroArr == 0

\* all headers Go's append may produce when k elements are appended to header h, where `fresh` is an unused array id
\* and `caps` the set of capacities the runtime may choose when it has to grow
AppendHdr(h, k, fresh, caps) ==
    IF h.len + k <= h.cap
    THEN {Hdr(h.len + k, h.cap, h.arr)}
    ELSE {Hdr(h.len + k, c, fresh) : c \in {c \in caps : c >= h.len + k /\ c > h.cap}}

\* the same rule as a predicate on an observed header h2 (`used` = arrays of the lists alive before the step)
IsAppend(h, k, h2, used) ==
    IF h.len + k <= h.cap
    THEN h2 = Hdr(h.len + k, h.cap, h.arr)
    ELSE /\ h2.len = h.len + k /\ h2.cap >= h2.len /\ h2.cap > h.cap
         /\ h2.arr # ZeroArr /\ h2.arr \notin used

\* make([]field, n): exactly n slots
MakeHdr(n, fresh) == IF n = 0 THEN Hdr(0, 0, ZeroArr) ELSE Hdr(n, n, fresh)
IsMake(n, h2, used) == IF n = 0 THEN h2 = Hdr(0, 0, ZeroArr)
                       ELSE h2.len = n /\ h2.cap = n /\ h2.arr # ZeroArr /\ h2.arr \notin used

\* a new list built by appending: its own array, room for at least its elements
IsBuilt(h2, used) == \/ h2.cap = 0 /\ h2.len = 0 /\ h2.arr = ZeroArr
                     \/ h2.cap > 0 /\ h2.len <= h2.cap /\ h2.arr # ZeroArr /\ h2.arr \notin used
=============================================================================
