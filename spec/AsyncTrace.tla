----------------------------- MODULE AsyncTrace -----------------------------
(***************************************************************************)
(* Trace validation for C15: executions of the real ForEachAsync/MapAsync  *)
(* recorded by the harness (callback entry "c", callback exit "r", return  *)
(* of the API call "R", in the order observed under the harness mutex) are *)
(* checked to be behaviours of AsyncObs.  Many executions are concatenated *)
(* in one file; a "reset" line starts a new call with its container size.  *)
(***************************************************************************)
EXTENDS AsyncObs, Json, TLC, Sequences, Naturals

CONSTANT TraceFile
Trace == ndJsonDeserialize(TraceFile)

VARIABLE l
tvars == <<n, called, retd, returned, l>>

TraceInit == /\ l = 1 /\ n = 0 /\ called = {} /\ retd = {} /\ returned = TRUE
             /\ TLCSet(1, 1)

IsEvent(e) == l <= Len(Trace) /\ Trace[l].e = e /\ l' = l + 1

\* a new call may only start when the previous one has returned (every recorded call is complete)
TraceReset == /\ IsEvent("reset") /\ returned
              /\ n' = Trace[l].i /\ called' = {} /\ retd' = {} /\ returned' = FALSE
TraceCall   == IsEvent("c") /\ Trace[l].i \in W /\ OCall(Trace[l].i)
TraceRet    == IsEvent("r") /\ Trace[l].i \in W /\ ORet(Trace[l].i)
TraceReturn == IsEvent("R") /\ OReturn

TraceNext == TraceReset \/ TraceCall \/ TraceRet \/ TraceReturn
TraceSpec == TraceInit /\ [][TraceNext]_tvars

\* high-water mark of consumed lines
Mark == TLCSet(1, IF l > TLCGet(1) THEN l ELSE TLCGet(1))
TraceAccepted == TLCGet(1) = Len(Trace) + 1
TraceInv == ReturnedAfterAll /\ retd \subseteq called
=============================================================================
